pub mod c01;
pub mod c02;
pub mod c03;
pub mod c04;
pub mod c05;
pub mod c07;
pub mod c09;
pub mod c10;
pub mod c12;
pub mod c13;
pub mod c14;
pub mod c15;
pub mod c16;
pub mod c17;
use crate::check::Prop;
pub fn all() -> Vec<Box<dyn Prop>> {
    vec![
        Box::new(c01::C01),
        Box::new(c02::C02),
        Box::new(c03::C03),
        Box::new(c04::C04),
        Box::new(c05::C05),
        Box::new(c05::C06),
        Box::new(c07::C07),
        Box::new(c07::C08),
        Box::new(c09::C09),
        Box::new(c10::C10),
        Box::new(c03::C11),
        Box::new(c12::C12),
        Box::new(c13::C13),
        Box::new(c14::C14),
        Box::new(c15::C15),
        Box::new(c16::C16),
        Box::new(c17::C17),
    ]
}

use crate::desc::*;
use crate::util::Rng;

/// Cross a scenario with environment features its own generator does not vary: XOR obfuscation, index
/// records and keys the loader must ignore, stale files in the dump folder, `--verify` on runs that start
/// above the first block. All of these are neutral on a tree where the properties hold (the oracles
/// select a run's own files and compare with the model); they exist to catch *interactions*
/// (range + verify, obfuscation + reopen, competitor records + file lifetime, …).
pub fn dress(scn: &mut Scenario, rng: &mut Rng, consistent_chain: bool) {
    if rng.chance(1, 6) {
        for l in scn.layouts.iter_mut() {
            if l.xor_key.is_none() {
                let n = *rng.pick(&[8usize, 8, 8, 1, 5, 32]);
                l.xor_key = Some(Bytes(rng.bytes(n)));
            }
        }
    }
    if rng.chance(1, 8) {
        // the four bytes in front of a block's size prefix are not part of what the index names
        let m = rng.range(1, 3) as u8;
        for l in scn.layouts.iter_mut() {
            l.magic_mode = m;
        }
    }
    if scn.chain.len() >= 2 && scn.chain.len() <= 60 && scn.extras.is_empty() && rng.chance(1, 4) {
        c04::add_ignored_competitors(scn, rng);
    }
    if scn.index.extra_keys.is_empty() && rng.chance(1, 4) {
        let mut t = vec![b't'];
        t.extend(rng.bytes(32));
        scn.index.extra_keys = vec![
            (Bytes(t), Bytes(rng.bytes_range(3, 12))),
            (Bytes(vec![b'l']), Bytes(vec![1])),
            (Bytes(b"Ftxindex".to_vec()), Bytes(vec![b'1'])),
            (Bytes(vec![b'f', 0]), Bytes(rng.bytes_range(4, 20))),
        ];
    }
    if scn.dump_pre.is_empty() && rng.chance(1, 5) {
        for st in ["blocks", "transactions", "tx_in", "tx_out", "unspent", "balances"] {
            if rng.coin() {
                scn.dump_pre.push(PreFile {
                    name: format!("{}.csv.tmp", st),
                    bytes: Bytes(vec![b'#'; rng.usize(1, 300_000)]),
                });
            }
        }
        scn.dump_pre.push(PreFile {
            name: "blocks-0-424242.csv".into(),
            bytes: Bytes(b"an older result\n".to_vec()),
        });
        scn.dump_pre.push(PreFile {
            name: "README".into(),
            bytes: Bytes(b"unrelated".to_vec()),
        });
        for name in [".lock", ".pid", ".csvdump.lock", ".unspentcsvdump.lock", ".balances.lock"] {
            if rng.coin() {
                scn.dump_pre.push(PreFile { name: name.into(), bytes: Bytes(b"1\n".to_vec()) });
            }
        }
    }
    if rng.chance(1, 4) {
        let step = *rng.pick(&[900u64, 4000, 11_000, 86_400_000]);
        for r in scn.runs.iter_mut() {
            if r.plan.clock_step_ms.is_none() {
                r.plan.clock_step_ms = Some(step);
            }
        }
    }
    if rng.chance(1, 4) {
        let style = rng.range(1, 3) as u8;
        for r in scn.runs.iter_mut() {
            r.path_style = style;
        }
    }
    if rng.chance(1, 8) && scn.runs.iter().all(|r| r.fresh_data) {
        for r in scn.runs.iter_mut() {
            r.dump_in_data = true;
        }
    }
    // the coin is what `-c` says (bitcoin when absent), not what the directory is called
    if rng.chance(1, 5) {
        let alias = rng.pick(&[".bitcoin", "testnet3", ".litecoin", "dogecoin", ".namecoin", "regtest", "signet"]).to_string();
        for r in scn.runs.iter_mut() {
            r.dir_alias = Some(alias.clone());
        }
    }
    if scn.coin == "bitcoin" && rng.chance(1, 4) {
        for r in scn.runs.iter_mut() {
            r.omit_coin = true;
        }
    }
    if rng.chance(1, 6) {
        let st = rng.range(1, 2) as u8;
        for r in scn.runs.iter_mut() {
            r.height_style = st;
        }
    }
    if rng.chance(1, 5) {
        let v = rng.range(1, 2) as u8;
        for r in scn.runs.iter_mut() {
            r.verbosity = v;
        }
    }
    if consistent_chain {
        for r in scn.runs.iter_mut() {
            if !r.verify && r.start.map(|s| s >= scn.base_height + 1).unwrap_or(false) && rng.chance(1, 3) {
                r.verify = true;
            }
        }
    }
}
