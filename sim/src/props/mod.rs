pub mod c02;
use crate::check::Prop;
pub fn all() -> Vec<Box<dyn Prop>> {
    vec![Box::new(c02::C02)]
}
