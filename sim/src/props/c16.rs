//! C16 — opreturn prints exactly the non-empty UTF-8 payloads, in chain order.
use crate::check::*;
use crate::desc::*;
use crate::exec::*;
use crate::gen::*;
use crate::oracle::*;
use crate::render::Model;
use crate::scriptgen::*;
use crate::scriptref::OpRet;
use crate::ser::*;
use crate::util::*;

pub struct C16;

fn payload(rng: &mut Rng) -> Vec<u8> {
    match rng.below(12) {
        0 => vec![],
        10 => known_payload(rng),
        11 => {
            // code points a "text clean-up" would single out, at the start, at the end or alone:
            // BOM, zero-width space, line/paragraph separators, NUL, DEL, noncharacters, the last code point
            let specials = ['\u{feff}', '\u{200b}', '\u{2028}', '\u{2029}', '\u{0}', '\u{7f}', '\u{fffe}', '\u{ffff}', '\u{10ffff}', '\u{85}', '\u{a0}', '\u{202e}'];
            let c = *rng.pick(&specials);
            let body = {
                let n = rng.usize(0, 20);
                String::from_utf8(text(rng, n)).unwrap_or_default()
            };
            match rng.below(4) {
                0 => c.to_string().into_bytes(),
                1 => format!("{}{}", c, body).into_bytes(),
                2 => format!("{}{}", body, c).into_bytes(),
                _ => format!("{}{}{}", c, body, c).into_bytes(),
            }
        }
        1 | 2 => {
            let n = *rng.pick(&[1usize, 2, 40, 74, 75, 76, 77, 80, 83, 255, 256, 300, 520, 4000, 9_990, 9_996, 9_997, 10_001, 20_000, 70_000]);
            text(rng, n)
        }
        3 | 4 => {
            let n = rng.usize(1, 120);
            utf8_text(rng, n)
        }
        5 => {
            // valid UTF-8 cut inside a multi-byte sequence
            let n = rng.usize(2, 30);
            let mut v = utf8_text(rng, n);
            v.pop();
            v
        }
        6 => {
            let n = rng.usize(1, 100);
            (0..n).map(|_| 0x80 | rng.next() as u8).collect()
        }
        7 => {
            let n = rng.usize(1, 90);
            let mut v = text(rng, n);
            let i = rng.usize(0, v.len() - 1);
            v[i] = *rng.pick(&[0xffu8, 0xc0, 0xfe, 0x80]);
            v
        }
        8 => {
            let n = rng.usize(1, 80);
            rng.bytes(n)
        }
        _ => {
            let n = rng.usize(76, 82);
            text(rng, n)
        }
    }
}

impl Prop for C16 {
    fn id(&self) -> &'static str {
        "C16"
    }
    fn rule(&self) -> String {
        "chains of 1..8 blocks x 8 coins whose outputs mix every non-OP_RETURN type with OP_RETURN outputs carrying payloads of 0..4000 bytes (ASCII, multi-byte UTF-8, UTF-8 cut mid-sequence, invalid UTF-8, random bytes, empty) in every push form able to carry them (direct <=75, PUSHDATA1 incl. non-minimal, PUSHDATA2, PUSHDATA4); plus OP_RETURN scripts that are not exactly one push (unconstrained: their lines are neither required nor forbidden). opreturn is run on the whole chain and on sub-ranges under worker-count/delay/read-chunk perturbation; stdout minus log lines must equal the reference line sequence (lossy decoding on fork coins, strict UTF-8 on bitcoin/testnet3). Non-trivial = at least one required line and one payload carried by PUSHDATA1/2/4; distinct by scenario hash.".into()
    }
    fn items(&self, tier: Tier) -> u64 {
        if tier == Tier::Quick {
            800
        } else {
            12000
        }
    }
    fn required_probes(&self, _tier: Tier) -> Vec<&'static str> {
        vec!["payload_pushdata1", "payload_pushdata2", "payload_pushdata4", "payload_76_80", "invalid_utf8_payload", "empty_payload", "multibyte_utf8_line", "sub_range_run", "lines_before_a_failing_block", "witness_commitment_payload_fork_coin", "same_txid_processed_twice", "block_with_64_plus_txs", "heights_of_ten_or_more_digits"]
    }
    fn explore(&self, item: u64, rng: &mut Rng, _tier: Tier, h: &mut Harness) -> Result<(), String> {
        let coin = COINS[(item % 8) as usize];
        let mut scn = new_scenario("C16", "opreturn", coin);
        let nb = rng.usize(1, 8);
        let wide_blocks = rng.chance(1, 8);
        let mut seen_payloads: Vec<Vec<u8>> = Vec::new();
        for i in 0..nb {
            let mut txs = vec![];
            // now and then a block as wide as real ones (the per-block work is split across workers), every
            // transaction with several payloads
            let wide = wide_blocks && i == nb / 2;
            let n_txs = if wide { rng.usize(64, 400) } else { rng.usize(1, 4) };
            for k in 0..n_txs {
                let mut outputs = vec![];
                for _ in 0..rng.usize(1, 6) {
                    let script = match rng.below(8) {
                        0..=3 => {
                            // identical payloads repeated within a transaction / block / chain must each print
                            let p = if !seen_payloads.is_empty() && rng.chance(1, 5) { rng.pick(&seen_payloads).clone() } else { payload(rng) };
                            seen_payloads.push(p.clone());
                            let forms: Vec<u8> = [0u8, 1, 2, 4].iter().copied().filter(|f| push_form(&p, *f).is_some()).collect();
                            let mut s = vec![0x6a];
                            if p.is_empty() && rng.coin() {
                                s.push(0x00);
                            } else {
                                s.extend(push_form(&p, *rng.pick(&forms)).unwrap());
                            }
                            s
                        }
                        4 => {
                            // OP_RETURN followed by something that is not exactly one push
                            let mut s = vec![0x6a];
                            match rng.below(5) {
                                4 => {
                                    // a complete OP_RETURN <push> behind one extra opcode: the script does not
                                    // start with OP_RETURN, so its type is not OP_RETURN and nothing is printed
                                    let n = rng.usize(1, 40);
                                    let inner = op_return(&text(rng, n));
                                    s = one_opcode_prefix(rng, inner);
                                    if s[0] == 0x6a {
                                        s[0] = 0x00;
                                    }
                                }
                                0 => {}
                                1 => {
                                    s.extend(push(b"ab"));
                                    s.extend(push(b"cd"));
                                }
                                2 => s.push(0x51),
                                _ => {
                                    s.extend(push(b"xy"));
                                    s.push(0xac);
                                }
                            }
                            s
                        }
                        // every other kind of script, well-formed or not (one drawn from the script-typing
                        // generators: near-misses, malformed witness programs, truncated pushes, …)
                        5 if rng.coin() => {
                            let btc = coin == "bitcoin" || coin == "testnet3";
                            let mut v = if btc { bitcoin_scripts(rng, 1) } else { fork_scripts(rng, 1) };
                            v.pop().unwrap_or_default()
                        }
                        _ => canonical_script(coin, rng),
                    };
                    outputs.push(OutDesc {
                        value: rng.below(10_000),
                        script: Bytes(script),
                    });
                }
                let input = if k == 0 {
                    coinbase_input(i as u64, rng)
                } else {
                    InDesc {
                        prev_txid: Bytes(rng.bytes(32)),
                        prev_index: 0,
                        script_sig: Bytes(vec![]),
                        sequence: 0,
                        witness: vec![],
                    }
                };
                if k == 0 {
                    outputs.insert(
                        0,
                        OutDesc {
                            value: 1,
                            script: Bytes(p2pkh(&rng.bytes(20))),
                        },
                    );
                }
                txs.push(TxDesc {
                    version: 1,
                    segwit: false,
                    inputs: vec![input],
                    outputs,
                    locktime: 0,
                    cs_width: 0,
                });
            }
            scn.chain.push(BlockDesc {
                version: 1,
                prev: None,
                merkle: None,
                time: 1_400_000_000 + i as u32 * 600,
                bits: 0x1d00ffff,
                nonce: i as u32,
                auxpow: None,
                txs,
            });
        }
        // byte-identical transactions processed twice (same txid): the coinbase of an earlier block again as
        // the coinbase of a later one, or a transaction repeated inside its block — every processed output prints
        if nb >= 2 && rng.chance(1, 5) {
            let (a, b) = (rng.usize(0, nb - 2), nb - 1);
            let cb = scn.chain[a].txs[0].clone();
            scn.chain[b].txs[0] = cb;
            h.stats.probe("same_txid_processed_twice");
        }
        if rng.chance(1, 8) {
            let bi = rng.usize(0, nb - 1);
            if scn.chain[bi].txs.len() >= 2 {
                let k = rng.usize(1, scn.chain[bi].txs.len() - 1);
                let dup = scn.chain[bi].txs[k].clone();
                scn.chain[bi].txs.push(dup);
                h.stats.probe("same_txid_processed_twice");
            }
        }
        if wide_blocks {
            h.stats.probe("block_with_64_plus_txs");
        }
        scn.layouts = vec![random_layout(nb, 2, false, rng)];
        scn.index = index_opts(rng);
        let t = nb as u64 - 1;
        // an index segment at heights of ten and more digits (the height column of a line is padded to nine)
        let base = if rng.chance(1, 10) { *rng.pick(&[999_999_996u64, 1_000_000_000, 4_294_967_294, 1_000_000_000_000]) } else { 0 };
        scn.base_height = base;
        if base > 0 {
            h.stats.probe("heights_of_ten_or_more_digits");
        }
        let mut r = RunSpec::new("opreturn");
        if base > 0 {
            r.start = Some(base);
        }
        r.threads = if wide_blocks { *rng.pick(&[8usize, 16, 64]) } else { pick_threads(rng) };
        r.plan = benign_plan(rng);
        // where stdout points must not matter: sometimes a pseudo-terminal instead of a file
        r.tty = rng.chance(1, 5);
        scn.runs.push(r.clone());
        if t >= 1 {
            let mut r2 = r.clone();
            r2.start = Some(base + rng.range(0, t - 1));
            if rng.coin() {
                r2.end = Some(rng.range(r2.start.unwrap() + 1, base + t + 1));
            }
            scn.runs.push(r2);
        }
        super::dress(&mut scn, rng, true);
        if seen_payloads.iter().any(|p| p.len() == 36 && p.starts_with(&[0xaa, 0x21, 0xa9, 0xed])) {
            h.stats.probe(if coin == "bitcoin" || coin == "testnet3" { "witness_commitment_payload_bitcoin" } else { "witness_commitment_payload_fork_coin" });
        }
        h.check(&mut scn)?;
        // a block that cannot be read in the middle of the range: the lines of the blocks processed before
        // it must have been printed (and nothing else), the run fails
        if nb >= 3 && base == 0 && rng.chance(1, 4) {
            let mut f = scn.clone();
            f.family = "fault-midway".into();
            let hh = rng.range(1, t);
            let mut r = RunSpec::new("opreturn");
            r.threads = 2;
            r.disk_faults = vec![match rng.below(3) {
                0 => DiskFault::PosPastEof { height: hh },
                1 => DiskFault::Truncate { height: hh, off: rng.range(0, 60) },
                _ => DiskFault::FlipBit { height: hh, off: 4, bit: 0 }, // harmless without --verify: control
            }];
            f.layouts = vec![single_file_layout(nb)];
            f.runs = vec![r];
            h.check(&mut f)?;
        }
        Ok(())
    }
    fn nontrivial(&self, scn: &Scenario, outs: &[RunOutcome]) -> bool {
        let pd = scn.chain.iter().flat_map(|b| b.txs.iter()).flat_map(|t| t.outputs.iter()).any(|o| o.script.0.len() > 2 && o.script.0[0] == 0x6a && (0x4c..=0x4e).contains(&o.script.0[1]));
        pd && outs.iter().all(|o| o.exit.ok()) && outs.iter().any(|o| o.plain_stdout_lines().iter().any(|l| l.starts_with("height: ")))
    }
    fn judge(&self, scn: &Scenario, m: &Model, outs: &[RunOutcome], st: &mut Stats) -> Vec<Violation> {
        for (bi, b) in scn.chain.iter().enumerate() {
            for (ti, t) in b.txs.iter().enumerate() {
                for (oi, o) in t.outputs.iter().enumerate() {
                    let s = &o.script.0;
                    if s.len() >= 2 && s[0] == 0x6a {
                        match s[1] {
                            0x4c => st.probe("payload_pushdata1"),
                            0x4d => st.probe("payload_pushdata2"),
                            0x4e => st.probe("payload_pushdata4"),
                            _ => {}
                        }
                        if s[1] == 0x4c && s.len() > 2 && (76..=80).contains(&s[2]) {
                            st.probe("payload_76_80");
                        }
                        match &m.verdict(bi, ti, oi).opret {
                            OpRet::Line(l) => {
                                if !l.is_ascii() {
                                    st.probe("multibyte_utf8_line");
                                }
                                if l.contains('\u{fffd}') {
                                    st.probe("invalid_utf8_payload");
                                }
                            }
                            OpRet::Nothing => {
                                if s.len() <= 3 {
                                    st.probe("empty_payload");
                                } else {
                                    st.probe("invalid_utf8_payload");
                                }
                            }
                            OpRet::Unknown => {}
                        }
                    }
                }
            }
        }
        let mut v = Vec::new();
        if scn.family == "fault-midway" {
            let (r, o) = (&scn.runs[0], &outs[0]);
            // with a single in-order file, a truncation/offset fault makes height hh (and everything after) unreadable
            let failing = match r.disk_faults.first() {
                Some(DiskFault::PosPastEof { height }) | Some(DiskFault::Truncate { height, .. }) => Some(*height),
                _ => None,
            };
            match failing {
                None => {
                    if !o.exit.ok() {
                        v.push(viol("C16/run-failed", format!("exit {:?}", o.exit)));
                    } else {
                        v.extend(compare_with_model("C16", m, r, o, &CmpOpts { addr: false, decimals: false }, st));
                    }
                }
                Some(hh) => {
                    st.probe("lines_before_a_failing_block");
                    if o.exit.ok() {
                        // judged by C10; here only the lines matter
                        st.abstain("C16: unreadable block did not fail the run (C10's business)", 1);
                    }
                    // lines for heights 0..hh-1 must be there, in order, and nothing for later heights
                    for x in compare_opreturn("C16/fault-midway", m, 0, hh - 1, o, st) {
                        v.push(viol("C16/lines-lost-or-extra-before-failure", format!("block {} unreadable: {}", hh, x.detail)));
                    }
                }
            }
            return v;
        }
        for (r, o) in scn.runs.iter().zip(outs.iter()) {
            if r.start.is_some() {
                st.probe("sub_range_run");
            }
            if r.tty {
                st.probe("stdout_is_a_terminal");
            }
            if !o.exit.ok() {
                v.push(viol("C16/run-failed", format!("exit {:?}: {}", o.exit, super::c01::tail(&o.stderr_str()))));
                continue;
            }
            v.extend(compare_with_model("C16", m, r, o, &CmpOpts { addr: false, decimals: false }, st));
        }
        v
    }
}
