//! One-off search for two distinct transactions whose txids share their first (or last) 8 stored
//! bytes — a 64-bit partial collision found with the distinguished-point method (van Oorschot–Wiener).
//! The result is pasted into `gen.rs` as constants; generated histories then contain a pair of
//! outpoints that collide under any map key built from ≤ 8 leading (trailing) txid bytes.
use crate::desc::*;
use crate::ser::*;
use crate::util::*;
use std::collections::HashMap;
use std::sync::atomic::{AtomicBool, Ordering};
use std::sync::Mutex;

/// nonces found by `rbpsim collide` / `rbpsim collide tail` (≈2^33 double-SHA256 evaluations each):
/// txids of `collision_tx(a)` and `collision_tx(b)` share their first / last 8 stored bytes
pub const HEAD_PAIR: (u64, u64) = (0x93a0eb6601019fa6, 0x574fce2dfcf88c47);
pub const TAIL_PAIR: (u64, u64) = (0xfa49f9610a5d7538, 0x5118ec19bb47d1ea);

pub fn collision_tx(nonce: u64) -> TxDesc {
    TxDesc {
        version: 1,
        segwit: false,
        inputs: vec![InDesc {
            prev_txid: Bytes(vec![0; 32]),
            prev_index: 0xffff_ffff,
            script_sig: Bytes(push(&nonce.to_le_bytes())),
            sequence: 0xffff_ffff,
            witness: vec![],
        }],
        outputs: vec![OutDesc {
            value: 100_000_000,
            script: Bytes(p2pkh(&[0x11; 20])),
        }],
        locktime: 0,
        cs_width: 0,
    }
}

fn f(template: &mut Vec<u8>, off: usize, x: u64, tail: bool) -> u64 {
    template[off..off + 8].copy_from_slice(&x.to_le_bytes());
    let h = sha256d_(template);
    if tail {
        u64::from_le_bytes(h[24..32].try_into().unwrap())
    } else {
        u64::from_le_bytes(h[0..8].try_into().unwrap())
    }
}

pub fn run(tail: bool) -> i32 {
    let base = ser_tx_stripped(&collision_tx(0x0102030405060708));
    let off = base.windows(8).position(|w| w == 0x0102030405060708u64.to_le_bytes()).expect("nonce position");
    const DP_BITS: u32 = 22;
    let table: Mutex<HashMap<u64, (u64, u64)>> = Mutex::new(HashMap::new());
    let found = AtomicBool::new(false);
    let result: Mutex<Option<(u64, u64)>> = Mutex::new(None);
    let t0 = std::time::Instant::now();
    std::thread::scope(|s| {
        for w in 0..16u64 {
            let table = &table;
            let found = &found;
            let result = &result;
            let base = base.clone();
            s.spawn(move || {
                let mut tpl = base;
                let mut rng = Rng::new(0xC0111DE ^ (w << 32) ^ tail as u64);
                while !found.load(Ordering::Relaxed) {
                    let start = rng.next();
                    let mut x = start;
                    let mut len = 0u64;
                    while x & ((1 << DP_BITS) - 1) != 0 && len < (1 << 26) {
                        x = f(&mut tpl, off, x, tail);
                        len += 1;
                    }
                    if len >= (1 << 26) {
                        continue;
                    }
                    let other = {
                        let mut t = table.lock().unwrap();
                        match t.get(&x) {
                            Some(o) if o.0 != start => Some(*o),
                            Some(_) => None,
                            None => {
                                t.insert(x, (start, len));
                                None
                            }
                        }
                    };
                    if let Some((s2, l2)) = other {
                        // walk both chains to the merge point
                        let (mut a, mut la, mut b, mut lb) = (start, len, s2, l2);
                        while la > lb {
                            a = f(&mut tpl, off, a, tail);
                            la -= 1;
                        }
                        while lb > la {
                            b = f(&mut tpl, off, b, tail);
                            lb -= 1;
                        }
                        if a == b {
                            continue; // one chain is a suffix of the other: no collision
                        }
                        loop {
                            let (fa, fb) = (f(&mut tpl, off, a, tail), f(&mut tpl, off, b, tail));
                            if fa == fb {
                                *result.lock().unwrap() = Some((a, b));
                                found.store(true, Ordering::Relaxed);
                                break;
                            }
                            a = fa;
                            b = fb;
                            la -= 1;
                            if la == 0 {
                                break;
                            }
                        }
                    }
                }
            });
        }
    });
    let (a, b) = result.lock().unwrap().expect("collision");
    let (ta, tb) = (txid_of(&collision_tx(a)), txid_of(&collision_tx(b)));
    println!("tail={} nonces {:#018x} {:#018x} after {:.0}s", tail, a, b, t0.elapsed().as_secs_f64());
    println!("txid a {}\ntxid b {}", hex(&ta), hex(&tb));
    0
}
