#!/usr/bin/env python3
"""Regenerates MANIFEST.json from the table below (keeps it valid at all times)."""
import json, subprocess
HOOK_COMMITS = ["b5f9d2d"]
CLAIMED = {
 "C02": dict(cat="exploration", ref="§5 C02",
   text="Deterministic simulation of the whole program against generated data directories: the (chain length T<=10) x option-shape x callback grid is enumerated completely (2.9k scenarios), high heights (VarInt width boundaries, up to 4M) and long chains are sampled under benign I/O perturbation. Marker blocks make every output row reveal its height, so 'exactly s..min(e,T), once, ascending' is read off the real outputs of all five callbacks.",
   note="Trusted: the world builder (rusty-leveldb writes the index the program reads), the marker scheme, tmpfs. Sampling outside the small grid.",
   tech="deterministic simulation: seeded world generation + whole-program runs under a planned I/O seam, exhaustive small grid + seeded sampling, oracle = marker heights vs range model"),
}
PENDING_REASON = "check not built yet in this revision (claimed in DESIGN.md; will move to checks when its oracle is registered)"
ALL = ["C%02d" % i for i in range(1, 18)]
checks = []
for pid in ALL:
    if pid in CLAIMED:
        c = CLAIMED[pid]
        checks.append({
            "property_id": pid,
            "quick_cmd": "./check %s quick" % pid,
            "thorough_cmd": "./check %s thorough" % pid,
            "evidence_file": "/verif/evidence/%s.json" % pid,
            "replay_cmd_template": "./check replay {path}",
            "engine": "rbpsim",
            "level_claimed": {"category": c["cat"], "text": c["text"], "design_ref": c["ref"]},
            "level_note": c["note"],
            "technique": c["tech"],
        })
na = [{"property_id": p, "reason": PENDING_REASON} for p in ALL if p not in CLAIMED]
m = {
 "version": 1,
 "setup_cmd": "./setup.sh",
 "hooks": {
   "guard": "cargo feature verif-sim",
   "enable": "cargo build --offline --release --features verif-sim --manifest-path /repo/Cargo.toml --target-dir /verif/.build/sut (LTO off, overflow-checks and debug-assertions on)",
   "baseline_off_cmd": "cd /repo && cargo test --workspace --no-fail-fast --offline",
   "source_commits": HOOK_COMMITS,
   "add_only": True,
 },
 "engines": [{"name": "rbpsim", "path": "/verif/sim", "serves_properties": sorted(CLAIMED.keys()),
   "kind_free_text": "deterministic whole-program simulator: seeded scenario generator, tmpfs world builder (blk files, xor.dat, LevelDB index), in-process I/O seam executing a fault plan (short reads/writes, EINTR, ENOSPC/EIO, EMFILE, rename failure, kill at any I/O event), executable reference model, shrinker, replay files"}],
 "checks": checks,
 "not_applicable": na,
 "notes": "Replay: ./check replay <file>. Exit 0 held / 1 violation / 2 harness error. Known findings and fixed defects: known_findings.json.",
}
json.dump(m, open("MANIFEST.json", "w"), indent=1)
print("claimed:", sorted(CLAIMED.keys()))
