//! Serialiser: builds the on-disk bytes of transactions and blocks from their
//! descriptions, and derives hashes/txids. The model never parses.
use crate::desc::*;
use crate::util::*;

#[derive(Clone, Debug)]
pub struct BuiltTx {
    pub txid: [u8; 32],
    /// full serialisation as stored
    pub bytes: Vec<u8>,
    /// witness-stripped length
    pub stripped_len: usize,
    /// offset of this tx inside the block payload
    pub off: usize,
    /// ranges (inside the block payload) of bytes NOT covered by the txid
    /// (marker, flag, witness stacks)
    pub uncovered: Vec<(usize, usize)>,
}

#[derive(Clone, Debug)]
pub struct BuiltBlock {
    pub hash: [u8; 32],
    pub prev: [u8; 32],
    pub merkle: [u8; 32],
    /// payload as stored after the size prefix
    pub bytes: Vec<u8>,
    pub txs: Vec<BuiltTx>,
    /// offset of the tx-count CompactSize in the payload (after header and AuxPoW)
    pub txcount_off: usize,
}

pub fn ser_tx_stripped(tx: &TxDesc) -> Vec<u8> {
    let w = tx.cs_width;
    let mut v = Vec::new();
    v.extend_from_slice(&tx.version.to_le_bytes());
    v.extend(compact_size_w(tx.inputs.len() as u64, w));
    for i in &tx.inputs {
        v.extend_from_slice(&i.prev_txid.0);
        v.extend_from_slice(&i.prev_index.to_le_bytes());
        v.extend(compact_size_w(i.script_sig.0.len() as u64, w));
        v.extend_from_slice(&i.script_sig.0);
        v.extend_from_slice(&i.sequence.to_le_bytes());
    }
    v.extend(compact_size_w(tx.outputs.len() as u64, w));
    for o in &tx.outputs {
        v.extend_from_slice(&o.value.to_le_bytes());
        v.extend(compact_size_w(o.script.0.len() as u64, w));
        v.extend_from_slice(&o.script.0);
    }
    v.extend_from_slice(&tx.locktime.to_le_bytes());
    v
}

/// full serialisation; returns (bytes, uncovered ranges relative to tx start)
pub fn ser_tx_full(tx: &TxDesc) -> (Vec<u8>, Vec<(usize, usize)>) {
    if !tx.segwit {
        return (ser_tx_stripped(tx), vec![]);
    }
    let mut unc = Vec::new();
    let mut v = Vec::new();
    v.extend_from_slice(&tx.version.to_le_bytes());
    unc.push((v.len(), v.len() + 2));
    v.push(0x00);
    v.push(0x01);
    let w = tx.cs_width;
    v.extend(compact_size_w(tx.inputs.len() as u64, w));
    for i in &tx.inputs {
        v.extend_from_slice(&i.prev_txid.0);
        v.extend_from_slice(&i.prev_index.to_le_bytes());
        v.extend(compact_size_w(i.script_sig.0.len() as u64, w));
        v.extend_from_slice(&i.script_sig.0);
        v.extend_from_slice(&i.sequence.to_le_bytes());
    }
    v.extend(compact_size_w(tx.outputs.len() as u64, w));
    for o in &tx.outputs {
        v.extend_from_slice(&o.value.to_le_bytes());
        v.extend(compact_size_w(o.script.0.len() as u64, w));
        v.extend_from_slice(&o.script.0);
    }
    let wstart = v.len();
    for i in &tx.inputs {
        v.extend(compact_size(i.witness.len() as u64));
        for w in &i.witness {
            v.extend(compact_size(w.0.len() as u64));
            v.extend_from_slice(&w.0);
        }
    }
    unc.push((wstart, v.len()));
    v.extend_from_slice(&tx.locktime.to_le_bytes());
    (v, unc)
}

pub fn txid_of(tx: &TxDesc) -> [u8; 32] {
    sha256d_(&ser_tx_stripped(tx))
}

pub fn merkle_root(txids: &[[u8; 32]]) -> [u8; 32] {
    if txids.is_empty() {
        return [0; 32];
    }
    let mut level: Vec<[u8; 32]> = txids.to_vec();
    while level.len() > 1 {
        if level.len() % 2 == 1 {
            let l = *level.last().unwrap();
            level.push(l);
        }
        let mut next = Vec::with_capacity(level.len() / 2);
        for p in level.chunks(2) {
            let mut b = [0u8; 64];
            b[..32].copy_from_slice(&p[0]);
            b[32..].copy_from_slice(&p[1]);
            next.push(sha256d_(&b));
        }
        level = next;
    }
    level[0]
}

fn arr32(b: &Bytes) -> [u8; 32] {
    let mut a = [0u8; 32];
    let n = b.0.len().min(32);
    a[..n].copy_from_slice(&b.0[..n]);
    a
}

fn ser_branch(v: &mut Vec<u8>, b: &MerkleBranchDesc) {
    v.extend(compact_size(b.hashes.len() as u64));
    for h in &b.hashes {
        v.extend_from_slice(&arr32(h));
    }
    v.extend_from_slice(&b.mask.to_le_bytes());
}

pub fn build_block(b: &BlockDesc, auto_prev: [u8; 32]) -> BuiltBlock {
    let mut txs = Vec::with_capacity(b.txs.len());
    let mut txids = Vec::with_capacity(b.txs.len());
    for t in &b.txs {
        let stripped = ser_tx_stripped(t);
        let txid = sha256d_(&stripped);
        let (bytes, unc) = if t.segwit { ser_tx_full(t) } else { (stripped.clone(), vec![]) };
        txids.push(txid);
        txs.push(BuiltTx {
            txid,
            bytes,
            stripped_len: stripped.len(),
            off: 0,
            uncovered: unc,
        });
    }
    let prev = match &b.prev {
        Some(p) => arr32(p),
        None => auto_prev,
    };
    let merkle = match &b.merkle {
        Some(m) => arr32(m),
        None => merkle_root(&txids),
    };
    let mut v = Vec::new();
    v.extend_from_slice(&b.version.to_le_bytes());
    v.extend_from_slice(&prev);
    v.extend_from_slice(&merkle);
    v.extend_from_slice(&b.time.to_le_bytes());
    v.extend_from_slice(&b.bits.to_le_bytes());
    v.extend_from_slice(&b.nonce.to_le_bytes());
    let hash = sha256d_(&v[..80]);
    if let Some(a) = &b.auxpow {
        let (cb, _) = ser_tx_full(&a.coinbase_tx);
        v.extend_from_slice(&cb);
        v.extend_from_slice(&arr32(&a.parent_hash));
        ser_branch(&mut v, &a.coinbase_branch);
        ser_branch(&mut v, &a.chain_branch);
        let mut ph = a.parent_header.0.clone();
        ph.resize(80, 0);
        v.extend_from_slice(&ph);
    }
    let txcount_off = v.len();
    v.extend(compact_size(b.txs.len() as u64));
    for t in txs.iter_mut() {
        t.off = v.len();
        for u in t.uncovered.iter_mut() {
            u.0 += t.off;
            u.1 += t.off;
        }
        v.extend_from_slice(&t.bytes);
    }
    BuiltBlock {
        hash,
        prev,
        merkle,
        bytes: v,
        txs,
        txcount_off,
    }
}

pub struct Built {
    pub active: Vec<BuiltBlock>,
    pub extras: Vec<BuiltBlock>,
}

pub fn build_all(scn: &Scenario) -> Built {
    let mut active: Vec<BuiltBlock> = Vec::with_capacity(scn.chain.len());
    let mut prev = [0u8; 32];
    for b in &scn.chain {
        let bb = build_block(b, prev);
        prev = bb.hash;
        active.push(bb);
    }
    let mut extras: Vec<BuiltBlock> = Vec::with_capacity(scn.extras.len());
    for (i, e) in scn.extras.iter().enumerate() {
        let auto_prev = if let Some(px) = e.parent_extra {
            if px < i {
                extras[px].hash
            } else {
                [0u8; 32]
            }
        } else if let Some(ph) = e.parent_height {
            if ph >= scn.base_height && ((ph - scn.base_height) as usize) < active.len() {
                active[(ph - scn.base_height) as usize].hash
            } else {
                [0u8; 32]
            }
        } else {
            [0u8; 32]
        };
        extras.push(build_block(&e.block, auto_prev));
    }
    Built { active, extras }
}

// ----------------------------------------------------------------------------
// Script builders used by generators (the *reference* for typing lives in scriptref.rs)

pub fn push(data: &[u8]) -> Vec<u8> {
    let mut v = Vec::new();
    let n = data.len();
    if n <= 75 {
        v.push(n as u8);
    } else if n <= 255 {
        v.push(0x4c);
        v.push(n as u8);
    } else if n <= 65535 {
        v.push(0x4d);
        v.extend_from_slice(&(n as u16).to_le_bytes());
    } else {
        v.push(0x4e);
        v.extend_from_slice(&(n as u32).to_le_bytes());
    }
    v.extend_from_slice(data);
    v
}
/// push using a specific opcode form: 0 = direct, 1/2/4 = PUSHDATA1/2/4
pub fn push_form(data: &[u8], form: u8) -> Option<Vec<u8>> {
    let n = data.len();
    let mut v = Vec::new();
    match form {
        0 => {
            if n == 0 || n > 75 {
                return None;
            }
            v.push(n as u8)
        }
        1 => {
            if n > 255 {
                return None;
            }
            v.push(0x4c);
            v.push(n as u8)
        }
        2 => {
            if n > 65535 {
                return None;
            }
            v.push(0x4d);
            v.extend_from_slice(&(n as u16).to_le_bytes())
        }
        4 => {
            v.push(0x4e);
            v.extend_from_slice(&(n as u32).to_le_bytes())
        }
        _ => return None,
    }
    v.extend_from_slice(data);
    Some(v)
}
pub fn p2pkh(h: &[u8]) -> Vec<u8> {
    let mut v = vec![0x76, 0xa9];
    v.extend(push(h));
    v.extend_from_slice(&[0x88, 0xac]);
    v
}
pub fn p2sh(h: &[u8]) -> Vec<u8> {
    let mut v = vec![0xa9];
    v.extend(push(h));
    v.push(0x87);
    v
}
pub fn p2pk(key: &[u8]) -> Vec<u8> {
    let mut v = push(key);
    v.push(0xac);
    v
}
pub fn witness_prog(version: u8, prog: &[u8]) -> Vec<u8> {
    let mut v = vec![if version == 0 { 0 } else { 0x50 + version }];
    v.extend(push(prog));
    v
}
pub fn op_return(data: &[u8]) -> Vec<u8> {
    let mut v = vec![0x6a];
    v.extend(push(data));
    v
}
pub fn multisig(m: u8, keys: &[Vec<u8>], n: u8) -> Vec<u8> {
    let num = |k: u8| if k == 0 { 0x00 } else { 0x50 + k };
    let mut v = vec![num(m)];
    for k in keys {
        v.extend(push(k));
    }
    v.push(num(n));
    v.push(0xae);
    v
}
/// a plausible compressed/uncompressed public key (not necessarily on the curve)
pub fn fake_pubkey(rng: &mut Rng, compressed: bool) -> Vec<u8> {
    if compressed {
        let mut k = vec![if rng.coin() { 2 } else { 3 }];
        k.extend(rng.bytes(32));
        k
    } else {
        let mut k = vec![4];
        k.extend(rng.bytes(64));
        k
    }
}
