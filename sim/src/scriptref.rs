//! Reference rules for output-script typing and addresses, written from the
//! property statements (C05, C06, C16) and the BIPs — shares no code with /repo.
//! Where a statement is silent the verdict is `Unknown` and oracles abstain.
use crate::desc::coin_params;
use crate::util::*;

#[derive(Clone, Copy, PartialEq, Eq, Debug, Hash, PartialOrd, Ord)]
pub enum Ty {
    P2PK,
    P2PKH,
    P2SH,
    P2WPKH,
    P2WSH,
    P2TR,
    WitnessProgram,
    MultiSig,
    OpReturn,
    Unspendable,
    NotRecognised,
    /// statement silent: abstain
    Unknown,
}

impl Ty {
    /// the label simplestats prints for this type (`{:?}` of the program's pattern)
    pub fn label(self) -> &'static str {
        match self {
            Ty::P2PK => "Pay2PublicKey",
            Ty::P2PKH => "Pay2PublicKeyHash",
            Ty::P2SH => "Pay2ScriptHash",
            Ty::P2WPKH => "Pay2WitnessPublicKeyHash",
            Ty::P2WSH => "Pay2WitnessScriptHash",
            Ty::P2TR => "Pay2Taproot",
            Ty::WitnessProgram => "WitnessProgram",
            Ty::MultiSig => "Pay2MultiSig",
            Ty::OpReturn => "OpReturn(\"\")",
            Ty::Unspendable => "Unspendable",
            Ty::NotRecognised => "NotRecognised",
            Ty::Unknown => "?",
        }
    }
}

#[derive(Clone, PartialEq, Eq, Debug)]
pub enum AddrV {
    Some(String),
    None,
    Unknown,
}

#[derive(Clone, PartialEq, Eq, Debug)]
pub enum OpRet {
    /// must print exactly this payload text
    Line(String),
    /// must print nothing
    Nothing,
    /// statement silent
    Unknown,
}

#[derive(Clone, Debug)]
pub struct Verdict {
    pub ty: Ty,
    pub addr: AddrV,
    pub opret: OpRet,
}

fn v(ty: Ty, addr: AddrV) -> Verdict {
    Verdict {
        ty,
        addr,
        opret: OpRet::Nothing,
    }
}

/// leading opcodes that make a script fail unconditionally (executed or not):
/// OP_RESERVED, OP_VER, OP_VERIF, OP_VERNOTIF, OP_RESERVED1/2, the disabled
/// opcodes, and everything from 0xba (undefined in legacy script).
pub fn is_unspendable_lead(op: u8) -> bool {
    matches!(op,
        0x50 | 0x62 | 0x65 | 0x66 | 0x7e..=0x81 | 0x83..=0x86 | 0x89 | 0x8a | 0x8d | 0x8e | 0x95..=0x99 | 0xba..=0xff)
}

#[derive(Clone, Debug, PartialEq, Eq)]
pub enum Tok {
    Push(Vec<u8>),
    Op(u8),
}

/// Bitcoin push tokenisation. None = a push runs past the end.
pub fn tokenize(s: &[u8]) -> Option<Vec<Tok>> {
    let mut i = 0usize;
    let mut out = Vec::new();
    while i < s.len() {
        let op = s[i];
        i += 1;
        let len = match op {
            0x00..=0x4b => Some(op as usize),
            0x4c => {
                if i + 1 > s.len() {
                    return None;
                }
                let n = s[i] as usize;
                i += 1;
                Some(n)
            }
            0x4d => {
                if i + 2 > s.len() {
                    return None;
                }
                let n = u16::from_le_bytes([s[i], s[i + 1]]) as usize;
                i += 2;
                Some(n)
            }
            0x4e => {
                if i + 4 > s.len() {
                    return None;
                }
                let n = u32::from_le_bytes([s[i], s[i + 1], s[i + 2], s[i + 3]]) as usize;
                i += 4;
                Some(n)
            }
            _ => None,
        };
        match len {
            Some(n) => {
                if n > s.len() - i {
                    return None;
                }
                out.push(Tok::Push(s[i..i + n].to_vec()));
                i += n;
            }
            None => out.push(Tok::Op(op)),
        }
    }
    Some(out)
}

/// For `OP_RETURN <one push>`: the payload. None if the rest is not exactly one push.
fn single_push_after_return(s: &[u8]) -> Option<Vec<u8>> {
    if s.first() != Some(&0x6a) {
        return None;
    }
    match tokenize(&s[1..]) {
        Some(t) if t.len() == 1 => match &t[0] {
            Tok::Push(d) => Some(d.clone()),
            _ => None,
        },
        _ => None,
    }
}

pub fn eval(coin: &str, s: &[u8]) -> Verdict {
    match coin {
        "bitcoin" | "testnet3" => eval_bitcoin(coin, s),
        _ => eval_fork(coin, s),
    }
}

fn eval_bitcoin(coin: &str, s: &[u8]) -> Verdict {
    let (p2pkh_v, p2sh_v, hrp) = if coin == "bitcoin" {
        (0x00u8, 0x05u8, "bc")
    } else {
        (0x6f, 0xc4, "tb")
    };
    if s.is_empty() {
        return v(Ty::NotRecognised, AddrV::None);
    }
    if s[0] == 0x6a {
        let opret = match single_push_after_return(s) {
            Some(p) => {
                if p.is_empty() {
                    OpRet::Nothing
                } else {
                    match String::from_utf8(p) {
                        Ok(t) => OpRet::Line(t),
                        Err(_) => OpRet::Nothing,
                    }
                }
            }
            None => OpRet::Unknown,
        };
        return Verdict {
            ty: Ty::OpReturn,
            addr: AddrV::None,
            opret,
        };
    }
    if is_unspendable_lead(s[0]) {
        return v(Ty::Unspendable, AddrV::None);
    }
    let n = s.len();
    // P2PK
    if (n == 35 && s[0] == 33 && s[34] == 0xac) || (n == 67 && s[0] == 65 && s[66] == 0xac) {
        let key = &s[1..n - 1];
        return v(Ty::P2PK, AddrV::Some(base58check(p2pkh_v, &hash160_(key))));
    }
    if n == 25 && s[0] == 0x76 && s[1] == 0xa9 && s[2] == 20 && s[23] == 0x88 && s[24] == 0xac {
        return v(Ty::P2PKH, AddrV::Some(base58check(p2pkh_v, &s[3..23])));
    }
    if n == 23 && s[0] == 0xa9 && s[1] == 20 && s[22] == 0x87 {
        return v(Ty::P2SH, AddrV::Some(base58check(p2sh_v, &s[2..22])));
    }
    // witness programs (BIP141): 1-byte version push + one direct push of 2..40 bytes
    if (4..=42).contains(&n) && (s[0] == 0 || (0x51..=0x60).contains(&s[0])) && (2..=40).contains(&s[1]) && s[1] as usize == n - 2 {
        let ver = if s[0] == 0 { 0 } else { s[0] - 0x50 };
        let prog = &s[2..];
        if ver == 0 {
            return match prog.len() {
                20 => v(Ty::P2WPKH, AddrV::Some(segwit_addr(hrp, 0, prog))),
                32 => v(Ty::P2WSH, AddrV::Some(segwit_addr(hrp, 0, prog))),
                // BIP141: v0 programs of other lengths are invalid; statement silent
                _ => v(Ty::Unknown, AddrV::Unknown),
            };
        }
        if ver == 1 && prog.len() == 32 {
            return v(Ty::P2TR, AddrV::Some(segwit_addr(hrp, 1, prog)));
        }
        return v(Ty::WitnessProgram, AddrV::Some(segwit_addr(hrp, ver, prog)));
    }
    // bare multisig
    match multisig_shape(s) {
        MsShape::Canonical => return v(Ty::MultiSig, AddrV::None),
        MsShape::Lookalike => return v(Ty::Unknown, AddrV::None),
        MsShape::No => {}
    }
    v(Ty::NotRecognised, AddrV::None)
}

enum MsShape {
    Canonical,
    Lookalike,
    No,
}

/// `m <key>*n n OP_CHECKMULTISIG`, 1<=m<=n<=16, keys of 33/65 bytes → Canonical.
/// Same token shape but odd key sizes / m=0 / n=0 → Lookalike (abstain).
/// m>n or n != number of keys → No (statement: not multisig).
fn multisig_shape(s: &[u8]) -> MsShape {
    let t = match tokenize(s) {
        Some(t) => t,
        None => return MsShape::No,
    };
    if t.len() < 3 {
        return MsShape::No;
    }
    if t[t.len() - 1] != Tok::Op(0xae) {
        return MsShape::No;
    }
    let num = |t: &Tok| -> Option<u8> {
        match t {
            Tok::Op(o) if (0x51..=0x60).contains(o) => Some(o - 0x50),
            Tok::Push(d) if d.is_empty() => Some(0),
            _ => None,
        }
    };
    let m = num(&t[0]);
    let nn = num(&t[t.len() - 2]);
    let keys = &t[1..t.len() - 2];
    let all_push = keys.iter().all(|k| matches!(k, Tok::Push(_)));
    if !all_push {
        // something that is not `m keys.. n CHECKMULTISIG`; the program's lexical
        // reading can still differ from ours when the terminator is not a number
        return if m.is_some() && nn.is_none() { MsShape::Lookalike } else { MsShape::No };
    }
    let (m, nn) = match (m, nn) {
        (Some(m), Some(n)) => (m, n),
        // the token in front of OP_CHECKMULTISIG is not a number: no m-of-n multisig
        (Some(_), None) => return MsShape::No,
        _ => return MsShape::No,
    };
    let std_keys = keys.iter().all(|k| matches!(k, Tok::Push(d) if d.len() == 33 || d.len() == 65));
    let direct = {
        // keys pushed with direct pushes only (canonical); PUSHDATA forms → lookalike
        let mut ok = true;
        let mut i = 1usize; // after m opcode
        if s[0] == 0 {
            ok = false;
        }
        for k in keys {
            if let Tok::Push(d) = k {
                if i >= s.len() || s[i] as usize != d.len() || d.len() > 75 {
                    ok = false;
                    break;
                }
                i += 1 + d.len();
            }
        }
        ok
    };
    if m == 0 || nn == 0 {
        return MsShape::Lookalike;
    }
    if nn as usize != keys.len() || m > nn {
        // wrong n / m>n: not a multisig — but only certain when keys are well-formed
        return if std_keys && direct { MsShape::No } else { MsShape::Lookalike };
    }
    if std_keys && direct {
        MsShape::Canonical
    } else {
        MsShape::Lookalike
    }
}

pub fn is_noop(op: u8) -> bool {
    op == 0x61 || (0xb0..=0xb9).contains(&op)
}

fn eval_fork(coin: &str, s: &[u8]) -> Verdict {
    let ver = coin_params(coin).version_id;
    // scripts containing CLTV/CSV: statement says "no-op opcodes ignored" — these two
    // are NOP2/NOP3 historically but not no-ops today: abstain on the type.
    let toks = match tokenize(s) {
        Some(t) => t,
        None => return v(Ty::NotRecognised, AddrV::None),
    };
    let has_cltv_csv = toks.iter().any(|t| matches!(t, Tok::Op(0xb1) | Tok::Op(0xb2)));
    // drop no-ops; zero-length pushes are not "non-empty pushes": keep them as a marker op
    #[derive(PartialEq)]
    enum E {
        D(Vec<u8>),
        O(u8),
        Empty,
    }
    let mut e: Vec<E> = Vec::new();
    for t in &toks {
        match t {
            Tok::Push(d) if d.is_empty() => e.push(E::Empty),
            Tok::Push(d) => e.push(E::D(d.clone())),
            Tok::Op(o) if is_noop(*o) => {}
            Tok::Op(o) => e.push(E::O(*o)),
        }
    }
    let verdict = (|| {
        if e.len() == 5 && e[0] == E::O(0x76) && e[1] == E::O(0xa9) && e[3] == E::O(0x88) && e[4] == E::O(0xac) {
            if let E::D(h) = &e[2] {
                return v(Ty::P2PKH, AddrV::Some(base58check(ver, h)));
            }
        }
        if e.len() == 2 && e[1] == E::O(0xac) {
            if let E::D(k) = &e[0] {
                return v(Ty::P2PK, AddrV::Some(base58check(ver, &hash160_(k))));
            }
        }
        if e.len() == 3 && e[0] == E::O(0xa9) && e[2] == E::O(0x87) {
            if let E::D(h) = &e[1] {
                return v(Ty::P2SH, AddrV::Some(base58check(0x05, h)));
            }
        }
        if e.len() == 2 && e[0] == E::O(0x6a) {
            if let E::D(p) = &e[1] {
                return Verdict {
                    ty: Ty::OpReturn,
                    addr: AddrV::None,
                    opret: OpRet::Line(String::from_utf8_lossy(p).into_owned()),
                };
            }
        }
        if e.len() == 6 && e[0] == E::O(0x52) && e[4] == E::O(0x53) && e[5] == E::O(0xae) {
            if let (E::D(_), E::D(_), E::D(_)) = (&e[1], &e[2], &e[3]) {
                return v(Ty::MultiSig, AddrV::None);
            }
        }
        v(Ty::NotRecognised, AddrV::None)
    })();
    if has_cltv_csv {
        // type and address unconstrained, but never an error
        return Verdict {
            ty: Ty::Unknown,
            addr: AddrV::Unknown,
            opret: OpRet::Unknown,
        };
    }
    // C16 speaks only about `OP_RETURN <exactly one push> and nothing else` (no no-ops
    // inserted): if no-ops were dropped to reach the template, the opreturn line is unconstrained.
    let mut verdict = verdict;
    if verdict.ty == Ty::OpReturn {
        let had_noop = toks.iter().any(|t| matches!(t, Tok::Op(o) if is_noop(*o)));
        if had_noop {
            verdict.opret = OpRet::Unknown;
        }
    } else if s.first() == Some(&0x6a) {
        // OP_RETURN scripts that are not the one-push template (bare OP_RETURN, empty
        // push, several pushes): type per C06 is NotRecognised; "script type is not
        // OP_RETURN → prints nothing" (C16).
        verdict.opret = OpRet::Nothing;
    }
    verdict
}

/// Check an address reported for `script` against the script: prefix, checksum,
/// and that it decodes to the hash / program embedded at the template position.
/// Used for *any* script (C05 oracle part 2). Returns Err(description) if bogus.
pub fn check_reported_address_bitcoin(coin: &str, s: &[u8], addr: &str) -> Result<(), String> {
    let (p2pkh_v, p2sh_v, hrp) = if coin == "bitcoin" { (0x00u8, 0x05u8, "bc") } else { (0x6f, 0xc4, "tb") };
    if let Some((ver, payload)) = base58check_decode(addr) {
        if ver == p2pkh_v {
            let n = s.len();
            let ok_p2pkh = n == 25 && s[0] == 0x76 && s[1] == 0xa9 && s[2] == 20 && s[23] == 0x88 && s[24] == 0xac && payload == s[3..23];
            let ok_p2pk = ((n == 35 && s[0] == 33) || (n == 67 && s[0] == 65)) && s[n - 1] == 0xac && payload == hash160_(&s[1..n - 1]);
            if ok_p2pkh || ok_p2pk {
                return Ok(());
            }
            return Err("base58 p2pkh-form address does not match script".into());
        }
        if ver == p2sh_v {
            if s.len() == 23 && s[0] == 0xa9 && s[1] == 20 && s[22] == 0x87 && payload == s[2..22] {
                return Ok(());
            }
            return Err("p2sh address does not match script".into());
        }
        return Err(format!("address version byte {:#x} not of this network", ver));
    }
    if let Some((h, ver, prog)) = segwit_decode(addr) {
        if h != hrp {
            return Err("wrong bech32 hrp".into());
        }
        let n = s.len();
        if n >= 4 && s[1] as usize == n - 2 && prog == s[2..] && ((ver == 0 && s[0] == 0) || (ver >= 1 && s[0] == 0x50 + ver)) {
            return Ok(());
        }
        return Err("segwit address does not match script".into());
    }
    Err("address has no valid checksum".into())
}

#[cfg(test)]
mod tests {
    use super::*;
    #[test]
    fn literals_from_repo_tests() {
        // the script literals used by the repository's own unit tests
        let s = unhex("76a91412ab8dc588ca9d5787dde7eb29569da63c3a238c88ac").unwrap();
        let r = eval("bitcoin", &s);
        assert_eq!(r.ty, Ty::P2PKH);
        assert_eq!(r.addr, AddrV::Some("12higDjoCCNXSA95xZMWUdPvXNmkAduhWv".into()));
        let r = eval("bitcoin", &unhex("a914e9c3dd0c07aac76179ebc76a6c78d4d67c6c160a87").unwrap());
        assert_eq!(r.ty, Ty::P2SH);
        assert_eq!(r.addr, AddrV::Some("3P14159f73E4gFr7JterCCQh9QjiTjiZrG".into()));
        // BIP173 test vector
        let r = eval("bitcoin", &unhex("0014751e76e8199196d454941c45d1b3a323f1433bd6").unwrap());
        assert_eq!(r.addr, AddrV::Some("bc1qw508d6qejxtdg4y5r3zarvary0c5xw7kv8f3t4".into()));
        // BIP350 test vector
        let r = eval("bitcoin", &unhex("5128751e76e8199196d454941c45d1b3a323f1433bd6751e76e8199196d454941c45d1b3a323f1433bd6").unwrap());
        assert_eq!(r.addr, AddrV::Some("bc1pw508d6qejxtdg4y5r3zarvary0c5xw7kw508d6qejxtdg4y5r3zarvary0c5xw7kt5nd6y".into()));
    }
}
