//! C15 — every simplestats figure equals an independent recomputation over the range.
use crate::check::*;
use crate::desc::*;
use crate::exec::*;
use crate::gen::*;
use crate::obs::*;
use crate::oracle::*;
use crate::render::Model;
use crate::ser::*;
use crate::util::*;

pub struct C15;

fn typed_script(coin: &str, kind: u64, rng: &mut Rng) -> Vec<u8> {
    let btc = coin == "bitcoin" || coin == "testnet3";
    match kind % if btc { 11 } else { 7 } {
        0 => p2pkh(&rng.bytes(20)),
        1 => {
            let c = rng.coin();
            p2pk(&fake_pubkey(rng, c))
        }
        2 => p2sh(&rng.bytes(20)),
        3 => op_return(b"stat"),
        4 => {
            let keys: Vec<Vec<u8>> = (0..3).map(|_| fake_pubkey(rng, true)).collect();
            multisig(2, &keys, 3)
        }
        5 => vec![0x51],                 // not recognised
        6 => vec![0x76, 0xa9, 0x88, 0xac], // not recognised
        7 => witness_prog(0, &rng.bytes(20)),
        8 => witness_prog(0, &rng.bytes(32)),
        9 => witness_prog(1, &rng.bytes(32)),
        _ => vec![0xff, 0x01], // unspendable (bitcoin)
    }
}

impl Prop for C15 {
    fn id(&self) -> &'static str {
        "C15"
    }
    fn rule(&self) -> String {
        "chains of 1..40 blocks, one chain of 2^18 + 1..4095 small blocks (thorough: one family with ~4300 blocks of ~1 MiB so the block-size sum passes 2^32) x 8 coins, a random subset of script types present, non-monotonic timestamps incl. gaps summing past 2^32, ties for both maxima (equal values / equal sizes: the first must win), coinbases paying below/at/above the subsidy at heights around 0 and 209999/210000/420000 (index segments run with --start), sub-ranges; perturbed worker counts and read chunking. blocks without any transaction (never with --verify); Excluded because the statement does not cover them: timestamp 0, heights beyond 64 halvings, coinbases without outputs, totals beyond 2^64. Oracle: integer figures exact; decimal renderings within half a unit in the last place (+1e-12 relative) of the exact rational value. Non-trivial = report parsed and >=2 blocks; distinct by scenario hash.".into()
    }
    fn items(&self, tier: Tier) -> u64 {
        if tier == Tier::Quick {
            1200
        } else {
            20001
        }
    }
    fn run_cap_secs(&self, tier: Tier) -> u64 {
        if tier == Tier::Quick {
            60
        } else {
            900 // the ~4.3 GB chain
        }
    }
    fn required_probes(&self, tier: Tier) -> Vec<&'static str> {
        let mut v = vec!["gap_sum_over_u32", "non_monotonic_timestamps", "tie_for_biggest_value", "tie_for_biggest_size", "coinbase_above_subsidy", "coinbase_below_subsidy", "height_around_halving", "sub_range", "coinbase_shaped_tx_not_first", "block_without_transactions_inside_range", "chain_longer_than_2_pow_18_blocks", "near_tie_for_biggest_size", "means_at_exact_rounding_ties", "simplestats_beyond_height_2_pow_32"];
        if tier == Tier::Thorough {
            v.push("block_size_sum_over_u32");
        }
        v
    }
    fn explore(&self, item: u64, rng: &mut Rng, tier: Tier, h: &mut Harness) -> Result<(), String> {
        let coin = COINS[(item % 8) as usize];
        let mut scn = new_scenario("C15", "stats", coin);
        if tier == Tier::Thorough && item == 20000 {
            // block-size sum beyond 2^32 with honest size prefixes: ~4300 blocks of ~1 MiB
            scn.family = "big-blocks".into();
            let n = 4300usize;
            for i in 0..n {
                let mut b = marker_block(i as u64, 0, rng);
                b.txs[0].inputs[0].script_sig = Bytes(vec![(i % 251) as u8; 1_000_000]);
                scn.chain.push(b);
            }
            scn.layouts = vec![single_file_layout(n)];
            scn.index = index_opts(rng);
            let mut r = RunSpec::new("simplestats");
            r.threads = 8;
            scn.runs = vec![r];
            h.check(&mut scn)?;
            return Ok(());
        }
        if item == 1199 || (tier == Tier::Thorough && item == 19999) {
            // a chain as long as real ones are counted in blocks (beyond 2^18): the means are over
            // hundreds of thousands of samples
            scn.family = "long-chain".into();
            let n = (1usize << 18) + rng.usize(1, 4095);
            // an index segment that crosses two halving heights (210 000 and 420 000) in one run
            let base0 = 209_000u64 + rng.below(990);
            scn.base_height = base0;
            let mut ts: u32 = 1_231_006_505;
            for i in 0..n {
                let hh = base0 + i as u64;
                let mut b = marker_block(hh, 0, rng);
                // every coinbase pays a little more than the subsidy of its height
                b.txs[0].outputs[0].value = ((50u64 * 100_000_000) >> (hh / 210_000)) + 1 + (hh % 7);
                ts = ts.saturating_add(rng.range(1, 1200) as u32);
                b.time = ts;
                // block sizes vary so that a dropped tail shows in the mean
                b.txs[0].inputs[0].script_sig = Bytes(vec![7u8; 2 + (i % 97)]);
                scn.chain.push(b);
            }
            scn.layouts = vec![single_file_layout(n)];
            scn.index = index_opts(rng);
            scn.index.storage = "flush".into();
            let mut r = RunSpec::new("simplestats");
            r.threads = 4;
            r.start = Some(base0);
            scn.runs = vec![r];
            h.stats.probe("chain_longer_than_2_pow_18_blocks");
            h.check(&mut scn)?;
            return Ok(());
        }
        if item % 10 == 3 {
            // means that are exact ties at the printed precision and exactly representable in binary: five blocks
            // whose sizes sum to 5 x 128 x odd (x.125/.375/.625/.875 KiB) and whose four gaps sum to 4 x 7.5 x odd
            // seconds (the same eighths of a minute) — 0.875 prints as 0.88, never as 0.87
            scn.family = "mean-ties".into();
            let nb = rng.usize(4, 8);
            let odd = 2 * rng.range(1, 40) + 1;
            // gaps: a tie needs (nb-1) x 7.5 x odd to be an integer, i.e. an even number of gaps
            let n_g = nb - 1;
            let mut gaps: Vec<u64> = (0..n_g).map(|_| rng.range(1, 7 * odd)).collect();
            if n_g % 2 == 0 {
                let want = (n_g as u64) * 15 * odd / 2;
                let partial: u64 = gaps[..n_g - 1].iter().sum();
                if partial < want {
                    gaps[n_g - 1] = want - partial;
                } else {
                    gaps = (0..n_g).map(|k| if k % 2 == 0 { 7 * odd } else { 8 * odd }).collect();
                }
            }
            let mut ts = 1_400_000_000u32;
            for i in 0..nb {
                let mut b = marker_block(i as u64, rng.usize(0, 2), rng);
                // uneven sizes, so that running means pass through non-dyadic values
                b.txs[0].inputs[0].script_sig = Bytes(vec![3u8; rng.usize(2, 1500)]);
                if i > 0 {
                    ts += gaps[i - 1] as u32;
                }
                b.time = ts;
                scn.chain.push(b);
            }
            let sizes: usize = scn.chain[..nb - 1].iter().map(|b| build_block(b, [0; 32]).bytes.len()).sum();
            let unit = nb * 128;
            for pad in 0..(2 * unit + 600) {
                scn.chain[nb - 1].txs[0].inputs[0].script_sig = Bytes(vec![7u8; 2 + pad]);
                let total = sizes + build_block(&scn.chain[nb - 1], [0; 32]).bytes.len();
                if total % unit == 0 && (total / unit) % 2 == 1 {
                    h.stats.probe("means_at_exact_rounding_ties");
                    break;
                }
            }
            scn.layouts = vec![single_file_layout(nb)];
            scn.index = index_opts(rng);
            let mut r = RunSpec::new("simplestats");
            r.threads = pick_threads(rng);
            scn.runs = vec![r];
            h.check(&mut scn)?;
            return Ok(());
        }
        if item % 10 == 7 && item % 20 == 7 {
            // heights beyond 2^32 (five-byte VarInt heights in the index): the report's "seen in block #" figures
            // carry the full height. No transaction here has the coinbase shape (the subsidy formula is only
            // defined for 64 halvings and C15 excludes heights beyond them for the fee figure).
            scn.family = "heights-beyond-32-bits".into();
            let base0 = (1u64 << 32) - 2 + rng.below(4) + if rng.coin() { 1u64 << 33 } else { 0 };
            scn.base_height = base0;
            let nb = rng.usize(2, 6);
            for i in 0..nb {
                let hh = base0 + i as u64;
                let mut b = marker_block(hh, rng.usize(1, 3), rng);
                // first transaction: an ordinary spend, not a coinbase
                b.txs[0].inputs[0].prev_txid = Bytes(rng.bytes(32));
                b.txs[0].inputs[0].prev_index = 0;
                b.txs[0].outputs[0].value = rng.range(1, 1_000_000_000);
                scn.chain.push(b);
            }
            scn.layouts = vec![random_layout(nb, 2, false, rng)];
            scn.index = index_opts(rng);
            let mut r = RunSpec::new("simplestats");
            r.start = Some(base0);
            r.threads = pick_threads(rng);
            scn.runs = vec![r];
            h.stats.probe("simplestats_beyond_height_2_pow_32");
            h.check(&mut scn)?;
            return Ok(());
        }
        let base = match rng.below(6) {
            0 => 209_990 + rng.below(8),
            1 => 419_995 + rng.below(4),
            2 => 6_929_990 + rng.below(8), // 33rd halving: subsidy 0
            _ => 0,
        };
        scn.base_height = base;
        let nb = if rng.chance(1, 8) { rng.usize(15, 40) } else { rng.usize(1, 10) };
        let kinds: Vec<u64> = (0..11).filter(|_| rng.coin()).collect();
        let kinds = if kinds.is_empty() { vec![0] } else { kinds };
        let tie_value = rng.chance(1, 3);
        let tie_size = rng.chance(1, 3);
        // sizes that beat each other by a byte or two, made of many long scripts (each 253+ byte script has a
        // 3-byte length prefix: size estimates that assume 1 byte are off by 2 per script)
        let near_tie_size = !tie_size && rng.chance(1, 5);
        let mut near_len = 0usize;
        let near_k = rng.usize(9, 24);
        let big_gaps = rng.chance(1, 3);
        let empty_blocks = nb >= 3 && rng.chance(1, 8);
        let mut ts: u32 = 1_300_000_000;
        let mut huge_payout_done = false;
        for i in 0..nb {
            let hh = base + i as u64;
            let subsidy = if hh / 210000 >= 64 { 0 } else { (50u64 * 100_000_000) >> (hh / 210000) };
            let mut txs = vec![];
            let cb_val = match rng.below(4) {
                // once per chain at most: a payout in the upper half of the u64 range (the chain total stays below 2^64)
                _ if !huge_payout_done && nb <= 10 && !tie_value && rng.chance(1, 40) => {
                    huge_payout_done = true;
                    (1u64 << 63) + rng.below(1 << 40)
                }
                0 => subsidy,
                1 => subsidy.saturating_sub(rng.range(1, 1000)),
                2 => subsidy + rng.range(1, 50_000_000),
                _ => subsidy + rng.below(3),
            };
            let mut outs = vec![OutDesc {
                value: cb_val,
                script: Bytes(typed_script(coin, *rng.pick(&kinds), rng)),
            }];
            if rng.coin() {
                outs.push(OutDesc {
                    value: rng.below(1000),
                    script: Bytes(typed_script(coin, *rng.pick(&kinds), rng)),
                });
            }
            txs.push(TxDesc {
                version: 1,
                segwit: false,
                inputs: vec![coinbase_input(hh, rng)],
                outputs: outs,
                locktime: 0,
                cs_width: 0,
            });
            if near_tie_size {
                for _ in 0..rng.usize(1, 3) {
                    let k = near_k;
                    near_len += rng.usize(1, 3);
                    let bump = near_len;
                    txs.push(TxDesc {
                        version: 2,
                        segwit: false,
                        inputs: (0..k)
                            .map(|j| InDesc {
                                prev_txid: Bytes(rng.bytes(32)),
                                prev_index: 0,
                                script_sig: Bytes(vec![9u8; if j == 0 { 300 + bump } else { 253 }]),
                                sequence: 0xffff_ffff,
                                witness: vec![],
                            })
                            .collect(),
                        outputs: vec![OutDesc { value: 1_000, script: Bytes(p2pkh(&rng.bytes(20))) }],
                        locktime: 0,
                        cs_width: 0,
                    });
                }
            }
            for _ in 0..rng.usize(0, 4) {
                let n_in = rng.usize(1, 3);
                let n_out = rng.usize(1, 4);
                let segwit = rng.chance(1, 4);
                txs.push(TxDesc {
                    version: 2,
                    segwit,
                    inputs: (0..n_in)
                        .map(|_| InDesc {
                            prev_txid: Bytes(rng.bytes(32)),
                            prev_index: rng.below(5) as u32,
                            // equal sizes provoke ties for the biggest-size tx
                            script_sig: Bytes(if tie_size { vec![7u8; 50] } else { rng.bytes_range(0, 120) }),
                            sequence: 0xffff_ffff,
                            witness: if segwit { vec![Bytes(rng.bytes_range(0, 200))] } else { vec![] },
                        })
                        .collect(),
                    outputs: (0..n_out)
                        .map(|_| OutDesc {
                            value: if tie_value { 10_000_000_000 } else { rng.log_range(1, 2_000_000_000_000) },
                            script: Bytes(if tie_size { p2pkh(&rng.bytes(20)) } else { typed_script(coin, *rng.pick(&kinds), rng) }),
                        })
                        .collect(),
                    locktime: 0,
                    cs_width: 0,
                });
            }
            // a coinbase-shaped transaction (null prevout) at a later position also counts "per coinbase"
            if rng.chance(1, 8) {
                let at = rng.usize(1, txs.len());
                txs.insert(
                    at,
                    TxDesc {
                        version: 1,
                        segwit: false,
                        inputs: vec![coinbase_input(hh + 7_000_000, rng)],
                        outputs: vec![OutDesc {
                            value: subsidy + rng.range(1, 90_000_000),
                            script: Bytes(p2pkh(&rng.bytes(20))),
                        }],
                        locktime: 0,
                        cs_width: 0,
                    },
                );
            }
            // NOT a coinbase: several inputs, the first of them the null outpoint, first output above the subsidy
            if rng.chance(1, 8) {
                let at = rng.usize(1, txs.len());
                let mut ins = vec![coinbase_input(hh + 9_000_000, rng)];
                for _ in 0..rng.usize(1, 2) {
                    ins.push(InDesc {
                        prev_txid: Bytes(rng.bytes(32)),
                        prev_index: 0,
                        script_sig: Bytes(vec![]),
                        sequence: 0,
                        witness: vec![],
                    });
                }
                txs.insert(
                    at,
                    TxDesc {
                        version: 1,
                        segwit: false,
                        inputs: ins,
                        outputs: vec![OutDesc {
                            value: subsidy + rng.range(1, 90_000_000),
                            script: Bytes(p2pkh(&rng.bytes(20))),
                        }],
                        locktime: 0,
                        cs_width: 0,
                    },
                );
            }
            // a block that carries no transaction at all (parses; only --verify would object): its
            // size, timestamp and gap still count
            if empty_blocks && i > 0 && i + 1 < nb && rng.chance(1, 3) {
                txs.clear();
            }
            // timestamps: mostly increasing, sometimes going back, sometimes huge gaps
            ts = match rng.below(9) {
                8 => ts, // equal timestamps: a gap of exactly 0
                0 => ts.saturating_sub(rng.range(1, 7200) as u32).max(1),
                1 if big_gaps => {
                    if ts < 0x8000_0000 {
                        0xf000_0000 + rng.below(1000) as u32
                    } else {
                        1 + rng.below(1000) as u32
                    }
                }
                _ => ts.saturating_add(rng.range(1, 1800) as u32),
            };
            scn.chain.push(BlockDesc {
                version: 1,
                prev: None,
                merkle: None,
                time: ts.max(1),
                bits: 0x1d00ffff,
                nonce: i as u32,
                auxpow: None,
                txs,
            });
        }
        scn.layouts = vec![random_layout(nb, 3, false, rng)];
        scn.index = index_opts(rng);
        let t = base + nb as u64 - 1;
        let mut r = RunSpec::new("simplestats");
        r.threads = pick_threads(rng);
        if rng.chance(1, 3) {
            r.plan.chunk_blk = random_chunks(rng);
        }
        r.start = if base > 0 { Some(base) } else { None };
        scn.runs.push(r.clone());
        if nb >= 2 && rng.coin() {
            let mut r2 = r.clone();
            let s = rng.range(base, t - 1);
            r2.start = Some(s);
            if rng.coin() {
                r2.end = Some(rng.range(s + 1, t + 1));
            }
            scn.runs.push(r2);
        }
        let has_empty = scn.chain.iter().any(|b| b.txs.is_empty());
        super::dress(&mut scn, rng, !has_empty);
        h.check(&mut scn)?;
        Ok(())
    }
    fn nontrivial(&self, scn: &Scenario, outs: &[RunOutcome]) -> bool {
        scn.chain.len() >= 2 && outs.iter().any(|o| parse_stats(&o.stdout_str()).is_some())
    }
    fn judge(&self, scn: &Scenario, m: &Model, outs: &[RunOutcome], st: &mut Stats) -> Vec<Violation> {
        let mut v = Vec::new();
        for (r, o) in scn.runs.iter().zip(outs.iter()) {
            let s = r.start.unwrap_or(0);
            let e = r.end.map(|e| e.min(m.tip())).unwrap_or(m.tip());
            let ex = m.stats(s, e);
            // probes
            if ex.sum_gaps > u32::MAX as u128 {
                st.probe("gap_sum_over_u32");
            }
            if ex.sum_block_size > u32::MAX as u128 {
                st.probe("block_size_sum_over_u32");
            }
            let times: Vec<u32> = m.idx_range(s, e).map(|i| scn.chain[i].time).collect();
            if times.windows(2).any(|w| w[1] < w[0]) {
                st.probe("non_monotonic_timestamps");
            }
            if r.start.map(|x| x > scn.base_height).unwrap_or(false) || r.end.is_some() {
                st.probe("sub_range");
            }
            if scn.base_height > 0 {
                st.probe("height_around_halving");
            }
            let mut vals: Vec<u128> = vec![];
            let mut sizes: Vec<u64> = vec![];
            for bi in m.idx_range(s, e) {
                if scn.chain[bi].txs.is_empty() && bi as u64 + scn.base_height > s && bi as u64 + scn.base_height < e {
                    st.probe("block_without_transactions_inside_range");
                }
                let hh = scn.base_height + bi as u64;
                let subsidy = if hh / 210000 >= 64 { 0 } else { (50u64 * 100_000_000) >> (hh / 210000) };
                for (ti, t) in scn.chain[bi].txs.iter().enumerate() {
                    vals.push(t.outputs.iter().map(|o| o.value as u128).sum());
                    sizes.push(m.built.active[bi].txs[ti].stripped_len as u64);
                    if ti > 0 && t.inputs.len() == 1 && t.inputs[0].prev_index == 0xffff_ffff && t.inputs[0].prev_txid.0.iter().all(|z| *z == 0) {
                        st.probe("coinbase_shaped_tx_not_first");
                    }
                    if ti == 0 && !t.outputs.is_empty() {
                        if t.outputs[0].value > subsidy {
                            st.probe("coinbase_above_subsidy");
                        }
                        if t.outputs[0].value < subsidy {
                            st.probe("coinbase_below_subsidy");
                        }
                    }
                }
            }
            if vals.iter().filter(|x| **x == ex.biggest_value.0).count() >= 2 {
                st.probe("tie_for_biggest_value");
            }
            if sizes.iter().filter(|x| **x == ex.biggest_size.0).count() >= 2 {
                st.probe("tie_for_biggest_size");
            }
            if sizes.iter().any(|x| *x < ex.biggest_size.0 && *x + 4 > ex.biggest_size.0) {
                st.probe("near_tie_for_biggest_size");
            }
            if !o.exit.ok() {
                v.push(viol("C15/run-failed", format!("simplestats on range {}..{} failed: exit {:?}: {}", s, e, o.exit, super::c01::tail(&o.stderr_str()))));
                continue;
            }
            v.extend(compare_with_model("C15", m, r, o, &CmpOpts { addr: false, decimals: true }, st));
        }
        v
    }
}
