//! Scenario minimisation: delta debugging over the scenario document while the
//! same violation class persists.
use crate::check::*;
use crate::desc::*;
use crate::exec::*;
use crate::render::Model;
use std::time::{Duration, Instant};

fn still_fails(prop: &dyn Prop, ctx: &ExecCtx, wd: &Workdir, scn: &Scenario, class: &str) -> bool {
    if scn.chain.is_empty() || scn.runs.is_empty() || scn.layouts.is_empty() {
        return false;
    }
    // every active block must still be stored in the layouts the runs use
    let model = Model::new(scn);
    let outs = match exec_scenario(ctx, wd, scn, &model.built) {
        Ok(o) => o,
        Err(_) => return false,
    };
    let mut st = Stats::default();
    let tries = if class.starts_with("C13") { 3 } else { 1 };
    for t in 0..tries {
        let outs2;
        let o = if t == 0 {
            &outs
        } else {
            outs2 = match exec_scenario(ctx, wd, scn, &model.built) {
                Ok(o) => o,
                Err(_) => return false,
            };
            &outs2
        };
        if prop.judge(scn, &model, o, &mut st).iter().any(|v| v.class == class) {
            return true;
        }
    }
    false
}

fn remove_active_from_layouts(scn: &mut Scenario, idx: usize) {
    for l in scn.layouts.iter_mut() {
        for f in l.files.iter_mut() {
            f.segs.retain(|s| !matches!(s, Seg::Active { i } if *i == idx));
            for s in f.segs.iter_mut() {
                if let Seg::Active { i } = s {
                    if *i > idx {
                        *i -= 1;
                    }
                }
            }
        }
    }
}

pub fn shrink(prop: &dyn Prop, ctx: &ExecCtx, wd: &Workdir, start: Scenario, class: &str) -> Scenario {
    let t0 = Instant::now();
    let budget = Duration::from_secs(60);
    let mut cur = start;
    let mut tried = 0u32;
    if !still_fails(prop, ctx, wd, &cur, class) {
        return cur; // flaky or stateful: report as is (fresh replay decides)
    }
    let mut progress = true;
    while progress && t0.elapsed() < budget && tried < 2000 {
        progress = false;
        let mut cands: Vec<Scenario> = Vec::new();
        // drop runs (keep at least one)
        if cur.runs.len() > 1 {
            for i in 0..cur.runs.len() {
                let mut c = cur.clone();
                c.runs.remove(i);
                cands.push(c);
            }
        }
        // simplify plans
        for i in 0..cur.runs.len() {
            let r = &cur.runs[i];
            let mut simpl: Vec<RunSpec> = Vec::new();
            if r.threads != 1 {
                let mut x = r.clone();
                x.threads = 1;
                simpl.push(x);
            }
            if r.plan.delay.is_some() {
                let mut x = r.clone();
                x.plan.delay = None;
                simpl.push(x);
            }
            if !r.plan.chunk_blk.is_empty() || !r.plan.chunk_xor.is_empty() {
                let mut x = r.clone();
                x.plan.chunk_blk.clear();
                x.plan.chunk_xor.clear();
                simpl.push(x);
            }
            if !r.plan.wshort.is_empty() || r.plan.weintr != 0 {
                let mut x = r.clone();
                x.plan.wshort.clear();
                x.plan.weintr = 0;
                simpl.push(x);
            }
            if r.verify {
                let mut x = r.clone();
                x.verify = false;
                simpl.push(x);
            }
            for k in 0..r.disk_faults.len() {
                let mut x = r.clone();
                x.disk_faults.remove(k);
                simpl.push(x);
            }
            for x in simpl {
                let mut c = cur.clone();
                c.runs[i] = x;
                cands.push(c);
            }
        }
        // drop dump_pre, extras' index, xor key, extra files
        if !cur.dump_pre.is_empty() {
            let mut c = cur.clone();
            c.dump_pre.clear();
            cands.push(c);
        }
        for li in 0..cur.layouts.len() {
            if cur.layouts[li].xor_key.is_some() {
                let mut c = cur.clone();
                c.layouts[li].xor_key = None;
                cands.push(c);
            }
            if !cur.layouts[li].extra_files.is_empty() {
                let mut c = cur.clone();
                c.layouts[li].extra_files.clear();
                cands.push(c);
            }
            // drop garbage/padding segments
            let has_junk = cur.layouts[li].files.iter().any(|f| f.segs.iter().any(|s| matches!(s, Seg::Garbage { .. } | Seg::Zero { .. } | Seg::Hole { .. })));
            if has_junk {
                let mut c = cur.clone();
                for f in c.layouts[li].files.iter_mut() {
                    f.segs.retain(|s| !matches!(s, Seg::Garbage { .. } | Seg::Zero { .. } | Seg::Hole { .. }));
                }
                cands.push(c);
            }
        }
        if !cur.index.extra_keys.is_empty() {
            let mut c = cur.clone();
            c.index.extra_keys.clear();
            cands.push(c);
        }
        for xi in 0..cur.extras.len() {
            if cur.extras[xi].index.is_some() {
                let mut c = cur.clone();
                c.extras[xi].index = None;
                cands.push(c);
            }
        }
        // drop tail blocks (halving first), then single blocks from the middle
        let n = cur.chain.len();
        if n > 1 {
            let mut k = n / 2;
            while k >= 1 {
                let mut c = cur.clone();
                for idx in (n - k..n).rev() {
                    c.chain.remove(idx);
                    remove_active_from_layouts(&mut c, idx);
                }
                cands.push(c);
                if k == 1 {
                    break;
                }
                k /= 2;
            }
            if n <= 40 {
                for idx in 0..n - 1 {
                    let mut c = cur.clone();
                    c.chain.remove(idx);
                    remove_active_from_layouts(&mut c, idx);
                    cands.push(c);
                }
            }
        }
        // drop txs (never the first of a block), outputs
        if cur.chain.len() <= 12 {
            for bi in 0..cur.chain.len() {
                let nt = cur.chain[bi].txs.len();
                if nt > 1 {
                    let mut c = cur.clone();
                    c.chain[bi].txs.truncate(1.max(nt / 2));
                    cands.push(c);
                    if nt <= 8 {
                        for ti in 1..nt {
                            let mut c = cur.clone();
                            c.chain[bi].txs.remove(ti);
                            cands.push(c);
                        }
                    }
                }
                for ti in 0..cur.chain[bi].txs.len().min(8) {
                    let no = cur.chain[bi].txs[ti].outputs.len();
                    if no > 1 {
                        let mut c = cur.clone();
                        c.chain[bi].txs[ti].outputs.truncate(1.max(no / 2));
                        cands.push(c);
                        if no <= 8 {
                            for oi in 0..no {
                                let mut c = cur.clone();
                                c.chain[bi].txs[ti].outputs.remove(oi);
                                cands.push(c);
                            }
                        }
                    }
                }
            }
        }
        for c in cands {
            if t0.elapsed() >= budget || tried >= 2000 {
                break;
            }
            tried += 1;
            if c == cur {
                continue;
            }
            if still_fails(prop, ctx, wd, &c, class) {
                cur = c;
                progress = true;
                break;
            }
        }
    }
    cur
}
