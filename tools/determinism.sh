#!/bin/bash
# Determinism proof (DESIGN §7.1): run each property's quick stream twice — once on 1 driver worker,
# once on 16 — in separate processes and diff the per-scenario digests (scenario document hash, I/O trace
# hash, normalised output hash, normalised stderr hash, verdict classes).
# usage: tools/determinism.sh [ID ...]    env: VERIF_SEED, LIMIT (number of work items, default 300)
cd "$(dirname "$0")/.." || exit 2
./check build || exit 2
IDS="${@:-C01 C02 C03 C04 C05 C06 C07 C08 C09 C10 C11 C12 C13 C14 C15 C16 C17}"
SIM=.build/sim/release/rbpsim
export RBPSIM_SUT=$PWD/.build/sut/release/rusty-blockparser RBPSIM_VERIF=/tmp/det-verif RBPSIM_NO_SHRINK=1
mkdir -p /tmp/det-verif; cp known_findings.json /tmp/det-verif/
rc=0
for id in $IDS; do
  rm -f /tmp/det-$id-a /tmp/det-$id-b
  RBPSIM_ITEM_LIMIT=${LIMIT:-300} RBPSIM_WORKERS=1  RBPSIM_DIGEST=/tmp/det-$id-a $SIM check $id quick >/dev/null 2>&1
  RBPSIM_ITEM_LIMIT=${LIMIT:-300} RBPSIM_WORKERS=16 RBPSIM_DIGEST=/tmp/det-$id-b $SIM check $id quick >/dev/null 2>&1
  sort /tmp/det-$id-a > /tmp/det-$id-a.s; sort /tmp/det-$id-b > /tmp/det-$id-b.s
  n=$(wc -l < /tmp/det-$id-a.s)
  if cmp -s /tmp/det-$id-a.s /tmp/det-$id-b.s; then echo "$id deterministic: $n scenario digests identical (1 vs 16 workers, separate processes)"; else
    echo "$id NONDETERMINISTIC: $(diff /tmp/det-$id-a.s /tmp/det-$id-b.s | grep -c '^<') of $n digests differ"; diff /tmp/det-$id-a.s /tmp/det-$id-b.s | head -6; rc=1; fi
done
rm -rf /tmp/det-verif
exit $rc
