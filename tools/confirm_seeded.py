#!/usr/bin/env python3
"""Confirm a sub-agent's seeded change in its scratch worktree and file it under /verif/seeded/.
usage: confirm_seeded.py <PROP> <N>     (reads /tmp/mut/<PROP>-out/{patchN.diff,demoN.*,metaN.json})
Confirms: patch applies; with patch alone the 41 existing tests pass; demo passes on the clean tree and
fails with the patch. Demo = a patch adding a cargo test (demoN.diff) or a script (demoN.sh)."""
import json, os, re, shutil, subprocess, sys
prop, n = sys.argv[1], sys.argv[2]
wt = f"/tmp/mut/{prop}"
out = f"/tmp/mut/{prop}-out"
env = dict(os.environ, CARGO_NET_OFFLINE="true")
def sh(cmd, **kw):
    return subprocess.run(cmd, shell=True, cwd=wt, env=env, capture_output=True, text=True, **kw)
def clean():
    sh("git checkout -- . && git clean -fdq src tests examples 2>/dev/null; true")
meta = json.load(open(f"{out}/meta{n}.json"))
patch = f"{out}/patch{n}.diff"
demo_diff = f"{out}/demo{n}.diff"
demo_sh = f"{out}/demo{n}.sh"
res = {}
clean()
# (c) patch alone: suite passes
r = sh(f"git apply {patch}")
if r.returncode != 0:
    print("patch does not apply:", r.stderr); sys.exit(1)
r = sh("cargo test --offline 2>&1 | grep 'test result' | head -1")
res["suite_with_patch"] = r.stdout.strip()
m_ = re.search(r"(\d+) passed; 0 failed", r.stdout); ok_suite = bool(m_) and int(m_.group(1)) >= 41
clean()
def run_demo():
    if os.path.exists(demo_diff):
        r = sh(f"git apply {demo_diff}")
        if r.returncode != 0:
            return None, "demo patch does not apply: " + r.stderr
        # run the cargo test invocation of demo_cmd verbatim (last command of the && chain)
        cmd = meta.get("demo_cmd", "").split("&&")[-1].strip()
        if "cargo test" not in cmd:
            cmd = "CARGO_NET_OFFLINE=true cargo test --offline"
        r = sh(cmd + " 2>&1 | grep -E 'test result|error(\\[|:)'")
        txt = r.stdout.strip()
        lines = [l for l in txt.splitlines() if l.startswith("test result")]
        npass = sum(int(re.search(r"(\d+) passed", l).group(1)) for l in lines if re.search(r"(\d+) passed", l))
        passed = bool(lines) and all("test result: ok" in l for l in lines) and npass > 0 and "error" not in txt
        return passed, txt
    elif os.path.exists(demo_sh):
        r = sh(f"bash {demo_sh} 2>&1 | tail -3")
        rc = sh(f"bash {demo_sh} >/dev/null 2>&1; echo $?").stdout.strip()
        return rc == "0", r.stdout.strip() + f" rc={rc}"
    return None, "no demo"
p_clean, t_clean = run_demo()
clean()
sh(f"git apply {patch}")
p_mut, t_mut = run_demo()
clean()
res["demo_on_clean"] = t_clean; res["demo_with_patch"] = t_mut
confirmed = ok_suite and p_clean is True and p_mut is False
print(f"{prop}-{n}: suite_ok={ok_suite} demo_clean_pass={p_clean} demo_patched_pass={p_mut} -> {'CONFIRMED' if confirmed else 'REJECTED'}")
print("   ", res)
if confirmed:
    d = f"/verif/seeded/{prop}-{n}"
    os.makedirs(d, exist_ok=True)
    shutil.copy(patch, f"{d}/patch.diff")
    for f in (demo_diff, demo_sh):
        if os.path.exists(f):
            shutil.copy(f, f"{d}/" + os.path.basename(f).replace(n, "", 1))
    m = {"property": meta.get("property", prop), "breaks": meta.get("summary"), "needs": meta.get("needs"), "demo_cmd": meta.get("demo_cmd"),
         "confirmed": {"existing_suite_with_patch": res["suite_with_patch"], "demo_on_clean_tree": t_clean, "demo_with_patch": t_mut,
                       "how": "tools/confirm_seeded.py in scratch worktree " + wt},
         "source": "independent sub-agent given only the property text and a scratch worktree"}
    json.dump(m, open(f"{d}/meta.json", "w"), indent=1)
