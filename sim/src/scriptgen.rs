//! Generators of output scripts: canonical templates, every push form, mutations,
//! truncations, no-op insertions, leading opcodes, witness programs, multisig grids,
//! random token sequences, random and hostile bytes.
use crate::ser::*;
use crate::util::*;

/// push `data` with form 0 (direct) / 1 / 2 / 4; falls back to the minimal form if impossible
pub fn pf(data: &[u8], form: u8) -> Vec<u8> {
    push_form(data, form).unwrap_or_else(|| push(data))
}

fn forms_for(len: usize) -> Vec<u8> {
    let mut f = vec![];
    if (1..=75).contains(&len) {
        f.push(0);
    }
    if len <= 255 {
        f.push(1);
    }
    if len <= 65535 {
        f.push(2);
    }
    f.push(4);
    f
}

/// template instances; `form` selects how data slots are pushed
pub fn template(kind: u64, form: u8, rng: &mut Rng) -> Vec<u8> {
    match kind % 7 {
        0 => {
            let mut v = vec![0x76, 0xa9];
            v.extend(pf(&rng.bytes(20), form));
            v.extend_from_slice(&[0x88, 0xac]);
            v
        }
        1 => {
            let c = rng.coin();
            let mut v = pf(&fake_pubkey(rng, c), form);
            v.push(0xac);
            v
        }
        2 => {
            let mut v = vec![0xa9];
            v.extend(pf(&rng.bytes(20), form));
            v.push(0x87);
            v
        }
        3 => {
            let n = rng.usize(1, 90);
            let mut v = vec![0x6a];
            v.extend(pf(&text(rng, n), form));
            v
        }
        4 => {
            let mut v = vec![0x52];
            for _ in 0..3 {
                let c = rng.coin();
                v.extend(pf(&fake_pubkey(rng, c), form));
            }
            v.extend_from_slice(&[0x53, 0xae]);
            v
        }
        5 => {
            // data slots with unusual payload sizes (any non-empty push is accepted on fork coins)
            let n = *rng.pick(&[1usize, 2, 19, 21, 32, 33, 64, 65, 75, 76, 80, 255, 256, 300]);
            let mut v = vec![0x76, 0xa9];
            v.extend(pf(&rng.bytes(n), if n > 65_535 { 4 } else { form }));
            v.extend_from_slice(&[0x88, 0xac]);
            v
        }
        _ => {
            let n = *rng.pick(&[1usize, 20, 32, 33, 65, 76, 100, 255, 256, 520]);
            let mut v = pf(&rng.bytes(n), form);
            v.push(0xac);
            v
        }
    }
}

pub fn text(rng: &mut Rng, n: usize) -> Vec<u8> {
    (0..n).map(|_| b' ' + (rng.below(95) as u8)).collect()
}

pub fn utf8_text(rng: &mut Rng, n_chars: usize) -> Vec<u8> {
    let mut s = String::new();
    for _ in 0..n_chars {
        let c = match rng.below(5) {
            4 => {
                if rng.chance(1, 4) {
                    '\u{fffd}' // the replacement character itself is valid UTF-8
                } else {
                    (b'A' + rng.below(26) as u8) as char
                }
            }
            0 => (b'a' + rng.below(26) as u8) as char,
            1 => char::from_u32(0xa1 + rng.below(0x700) as u32).unwrap_or('é'),
            2 => char::from_u32(0x4e00 + rng.below(0x5000) as u32).unwrap_or('中'),
            _ => char::from_u32(0x1f300 + rng.below(0x300) as u32).unwrap_or('🙂'),
        };
        s.push(c);
    }
    s.into_bytes()
}

const NOOPS: [u8; 9] = [0x61, 0xb0, 0xb3, 0xb4, 0xb5, 0xb6, 0xb7, 0xb8, 0xb9];

/// token boundaries of a script (offsets where a new token starts), or None if it does not tokenise
fn boundaries(s: &[u8]) -> Option<Vec<usize>> {
    let mut i = 0usize;
    let mut b = vec![0];
    while i < s.len() {
        let op = s[i];
        i += 1;
        let n = match op {
            0x00..=0x4b => op as usize,
            0x4c => {
                if i + 1 > s.len() {
                    return None;
                }
                let n = s[i] as usize;
                i += 1;
                n
            }
            0x4d => {
                if i + 2 > s.len() {
                    return None;
                }
                let n = u16::from_le_bytes([s[i], s[i + 1]]) as usize;
                i += 2;
                n
            }
            0x4e => {
                if i + 4 > s.len() {
                    return None;
                }
                let n = u32::from_le_bytes([s[i], s[i + 1], s[i + 2], s[i + 3]]) as usize;
                i += 4;
                n
            }
            _ => 0,
        };
        if n > s.len() - i {
            return None;
        }
        i += n;
        b.push(i);
    }
    Some(b)
}

pub fn random_tokens(rng: &mut Rng, n: usize) -> Vec<u8> {
    let mut v = Vec::new();
    for _ in 0..n {
        match rng.below(6) {
            0 => {
                let l = rng.usize(0, 40);
                let f = *rng.pick(&[0u8, 1, 2, 4]);
                v.extend(pf(&rng.bytes(l), f));
            }
            1 => v.push(*rng.pick(&[0x76u8, 0xa9, 0x88, 0xac, 0x87, 0x6a, 0xae, 0x52, 0x53, 0x51, 0x00])),
            2 => v.push(*rng.pick(&NOOPS)),
            3 => v.push(rng.range(0x4f, 0xb9) as u8),
            4 => v.push(rng.next() as u8),
            _ => v.extend(push(&rng.bytes(20))),
        }
    }
    v
}

/// scripts for fork coins (C06); about `n` scripts
/// secp256k1 points G, 2G, 3G (well-known coordinates) in a random encoding: 02/03 compressed, 04
/// uncompressed, 06/07 hybrid. If a constant were mistyped the script would simply be a P2PK with an
/// invalid key — the reference address does not depend on validity.
pub fn real_pubkey(rng: &mut Rng) -> Vec<u8> {
    const PTS: [(&str, &str); 3] = [
        ("79be667ef9dcbbac55a06295ce870b07029bfcdb2dce28d959f2815b16f81798", "483ada7726a3c4655da4fbfc0e1108a8fd17b448a68554199c47d08ffb10d4b8"),
        ("c6047f9441ed7d6d3045406e95c07cd85c778e4b8cef3ca7abac09b95c709ee5", "1ae168fea63dc339a3c58419466ceaeef7f632653266d0e1236431a950cfe52a"),
        ("f9308a019258c31049344f85f89d5229b531c845836f99b08601f113bce036f9", "388f7b0f632de8140fe337e62a37f3566500a99934c2231b6cb9fd7584b8e672"),
    ];
    let (x, y) = *rng.pick(&PTS);
    let (x, y) = (unhex(x).unwrap(), unhex(y).unwrap());
    let odd = y[31] & 1;
    match rng.below(4) {
        0 => {
            let mut k = vec![2 + odd];
            k.extend(x);
            k
        }
        1 => {
            let mut k = vec![4];
            k.extend(x);
            k.extend(y);
            k
        }
        _ => {
            let mut k = vec![6 + odd];
            k.extend(x);
            k.extend(y);
            k
        }
    }
}

/// a copy of an earlier script of the batch with one payload byte changed (same length, same
/// prefix or same suffix): exposes caches / memoisation keyed too coarsely
fn near_duplicate(out: &[Vec<u8>], rng: &mut Rng) -> Option<Vec<u8>> {
    if out.is_empty() {
        return None;
    }
    for _ in 0..4 {
        let s = rng.pick(out);
        if s.len() >= 12 {
            let mut v = s.clone();
            let i = match rng.below(3) {
                0 => v.len() - 3 - rng.usize(0, 2),          // near the end of the payload
                1 => 3 + rng.usize(0, 2),                    // near its start
                _ => rng.usize(3, v.len() - 3),
            };
            v[i] ^= 1 << rng.below(8);
            return Some(v);
        }
    }
    None
}

/// the payload of an earlier script of the batch under a DIFFERENT template (same hash paid as
/// P2PKH and as P2SH, a key used as P2PK whose bytes also appear as a P2PKH "hash", …)
fn retarget(out: &[Vec<u8>], rng: &mut Rng, btc: bool) -> Option<Vec<u8>> {
    if out.is_empty() {
        return None;
    }
    for _ in 0..6 {
        let s = rng.pick(out);
        if let Some(toks) = crate::scriptref::tokenize(s) {
            let payload = toks.iter().find_map(|t| match t {
                crate::scriptref::Tok::Push(d) if !d.is_empty() && d.len() <= 75 => Some(d.clone()),
                _ => None,
            });
            if let Some(p) = payload {
                let k = rng.below(if btc && (p.len() == 20 || p.len() == 32) { 6 } else { 4 });
                return Some(match k {
                    0 => p2pkh(&p),
                    1 => p2sh(&p),
                    2 => p2pk(&p),
                    3 => op_return(&p),
                    4 => witness_prog(0, &p),
                    _ => witness_prog(1, &p),
                });
            }
        }
    }
    None
}

/// a template instance in which one `OP_xVERIFY` opcode is spelt as its two-opcode equivalent
/// (`OP_EQUALVERIFY` = `OP_EQUAL OP_VERIFY`, …) or a plain opcode gets an `OP_VERIFY`/`OP_NOP` companion:
/// semantically close, but a different byte string and therefore no template instance
pub fn respelt_template(rng: &mut Rng, inner: Vec<u8>) -> Vec<u8> {
    let b = match boundaries(&inner) {
        Some(b) => b,
        None => return inner,
    };
    let starts: Vec<usize> = b[..b.len() - 1].to_vec();
    let mut cands: Vec<(usize, Vec<u8>)> = Vec::new();
    for &i in &starts {
        match inner[i] {
            0x88 => cands.push((i, vec![0x87, 0x69])),
            0xad => cands.push((i, vec![0xac, 0x69])),
            0xaf => cands.push((i, vec![0xae, 0x69])),
            0x9d => cands.push((i, vec![0x9c, 0x69])),
            0x87 => cands.push((i, vec![0x88, 0x51])),
            0xac => cands.push((i, vec![0xad, 0x51])),
            0xae => cands.push((i, vec![0xaf, 0x51])),
            0x76 => cands.push((i, vec![0x76, 0x61])),
            0xa9 => cands.push((i, vec![0xa8, 0xa6])), // HASH160 = RIPEMD160(SHA256(x))
            _ => {}
        }
    }
    if cands.is_empty() {
        return inner;
    }
    let (i, rep) = rng.pick(&cands).clone();
    let mut v = inner[..i].to_vec();
    v.extend(rep);
    v.extend_from_slice(&inner[i + 1..]);
    v
}

/// an intact template instance followed by a PUSHDATA opcode whose length field is cut off by the end
/// of the script (the last token does not tokenise, so the whole script is no template instance)
pub fn cut_length_field_tail(rng: &mut Rng, inner: Vec<u8>) -> Vec<u8> {
    let mut v = inner;
    match rng.below(6) {
        0 => v.push(0x4c),
        1 => v.push(0x4d),
        2 => v.extend_from_slice(&[0x4d, rng.next() as u8]),
        3 => v.push(0x4e),
        4 => v.extend_from_slice(&[0x4e, rng.next() as u8, rng.next() as u8]),
        _ => v.extend_from_slice(&[0x4e, rng.next() as u8, rng.next() as u8, rng.next() as u8]),
    }
    v
}

/// an intact template instance behind so many complete extra tokens (OP_0 / small pushes) that the script
/// has exactly `total` tokens: matchers that pack or index tokens have their edge at a token count
pub fn padded_to_token_count(rng: &mut Rng, inner: Vec<u8>, total: usize) -> Vec<u8> {
    let have = boundaries(&inner).map(|b| b.len() - 1).unwrap_or(total);
    let mut v = Vec::new();
    for _ in have..total {
        match rng.below(3) {
            0 | 1 => v.push(0x00),
            _ => {
                let n = rng.usize(1, 20);
                v.extend(push(&rng.bytes(n)));
            }
        }
    }
    v.extend(inner);
    v
}

/// an intact template instance behind exactly one extra leading opcode
pub fn one_opcode_prefix(rng: &mut Rng, inner: Vec<u8>) -> Vec<u8> {
    let mut v = vec![*rng.pick(&[0x00u8, 0x51, 0x61, 0x75, 0x76, 0x6a, 0x4f, 0x60, 0x69, 0xb1])];
    v.extend(inner);
    v
}

/// an intact template instance with a few complete tokens in front of it and/or behind it
/// (e.g. Namecoin name operations `OP_1 <name> OP_2DROP <P2PKH>`, `<data> OP_DROP <P2PKH>`)
fn wrapped_template(rng: &mut Rng, inner: Vec<u8>) -> Vec<u8> {
    let tok = |rng: &mut Rng| -> Vec<u8> {
        match rng.below(6) {
            0 => vec![*rng.pick(&[0x51u8, 0x52, 0x53, 0x5a, 0x60])],
            1 => {
                let n = rng.usize(1, 30);
                push(&rng.bytes(n))
            }
            2 => vec![*rng.pick(&[0x6du8, 0x75, 0x6d, 0x75, 0x76, 0x87])], // OP_2DROP, OP_DROP, OP_DUP, OP_EQUAL
            3 => vec![0x00],
            4 => push(&rng.bytes(20)),
            _ => vec![*rng.pick(&[0xacu8, 0xad, 0x69, 0x88])],
        }
    };
    let mut v = Vec::new();
    let (pre, post) = match rng.below(3) {
        0 => (rng.usize(1, 5), 0),
        1 => (0, rng.usize(1, 3)),
        _ => (rng.usize(1, 4), rng.usize(1, 2)),
    };
    // the classic shapes first
    if pre > 0 && rng.coin() {
        match rng.below(3) {
            0 => {
                v.push(0x51);
                let n = rng.usize(1, 40);
                v.extend(push(&rng.bytes(n)));
                v.push(0x6d);
            }
            1 => {
                v.push(0x52);
                for _ in 0..3 {
                    let n = rng.usize(1, 30);
                    v.extend(push(&rng.bytes(n)));
                }
                v.extend_from_slice(&[0x6d, 0x6d]);
            }
            _ => {
                v.push(0x53);
                for _ in 0..2 {
                    let n = rng.usize(1, 30);
                    v.extend(push(&rng.bytes(n)));
                }
                v.extend_from_slice(&[0x6d, 0x75]);
            }
        }
    } else {
        for _ in 0..pre {
            v.extend(tok(rng));
        }
    }
    v.extend(inner);
    for _ in 0..post {
        v.extend(tok(rng));
    }
    v
}

/// Payload prefixes of embedded-data protocols found on the real chains (a filter keyed on one of them is
/// invisible to random payloads)
pub const KNOWN_PAYLOAD_PREFIXES: [&[u8]; 12] = [
    &[0xaa, 0x21, 0xa9, 0xed], // BIP141 witness commitment
    b"omni",
    b"SPK",
    b"CC\x02",
    b"id;",
    b"ASCRIBE",
    b"DOCPROOF",
    b"EW ",
    b"BITPROOF",
    &[0x52, 0x53, 0x4b, 0x42, 0x4c, 0x4f, 0x43, 0x4b, 0x3a], // RSKBLOCK:
    b"http://",
    &[0xfa, 0xbe, b'm', b'm'], // merged-mining tag
];

pub fn known_payload(rng: &mut Rng) -> Vec<u8> {
    let mut p = rng.pick(&KNOWN_PAYLOAD_PREFIXES).to_vec();
    if p[0] == 0xaa {
        let n = if rng.chance(3, 4) { 32 } else { rng.usize(0, 40) };
        p.extend(rng.bytes(n));
    } else {
        let n = rng.usize(0, 60);
        p.extend(if rng.coin() { text(rng, n) } else { rng.bytes(n) });
    }
    p
}

/// scripts that exist verbatim on the real chains or are singled out by node policy
pub fn well_known(rng: &mut Rng) -> Vec<u8> {
    match rng.below(14) {
        0 => vec![0x51, 0x02, 0x4e, 0x73], // pay-to-anchor
        1 => op_return(&known_payload(rng)),
        2 => {
            // the genesis coinbase output
            let mut k = unhex("04678afdb0fe5548271967f1a67130b7105cd6a828e03909a67962e0ea1f61deb649f6bc3f4cef38c4f35504e51ec112de5c384df7ba0b8d578a4c702b6bf11d5f").unwrap();
            k.insert(0, 65);
            k.push(0xac);
            k
        }
        3 => p2pkh(&[0u8; 20]),
        4 => p2sh(&[0u8; 20]),
        5 => witness_prog(0, &[0u8; 20]),
        6 => witness_prog(0, &[0u8; 32]),
        7 => witness_prog(1, &[0u8; 32]),
        8 => witness_prog(1, &[0xffu8; 32]),
        9 => {
            // runestone: OP_RETURN OP_13 <push>
            let mut v = vec![0x6a, 0x5d];
            v.extend(push(&rng.bytes_range(0, 30)));
            v
        }
        10 => vec![0x6a],
        11 => vec![0x51],
        12 => p2pkh(&[0xffu8; 20]),
        _ => vec![0x6a, 0x24, 0xaa, 0x21, 0xa9, 0xed],
    }
}

pub fn fork_scripts(rng: &mut Rng, n: usize) -> Vec<Vec<u8>> {
    let mut out: Vec<Vec<u8>> = Vec::with_capacity(n);
    while out.len() < n {
        if rng.chance(1, 40) {
            out.push(well_known(rng));
            continue;
        }
        if rng.chance(1, 12) {
            let inner = template(rng.below(5), 0, rng);
            out.push(wrapped_template(rng, inner));
            continue;
        }
        if rng.chance(1, 15) {
            let inner = template(rng.below(5), *rng.pick(&[0u8, 0, 1]), rng);
            out.push(match rng.below(4) {
                0 => respelt_template(rng, inner),
                1 => one_opcode_prefix(rng, inner),
                2 => cut_length_field_tail(rng, inner),
                _ => {
                    let total = *rng.pick(&[7usize, 8, 8, 9, 15, 16, 17, 31, 32, 33, 63, 64, 65]);
                    padded_to_token_count(rng, inner, total)
                }
            });
            continue;
        }
        if rng.chance(1, 16) {
            if let Some(v) = near_duplicate(&out, rng) {
                out.push(v);
                continue;
            }
        }
        if rng.chance(1, 12) {
            if let Some(v) = retarget(&out, rng, false) {
                out.push(v);
                continue;
            }
        }
        match rng.below(14) {
            0 | 1 | 2 => {
                // every template x every push form that can carry the slot
                let kind = rng.below(7);
                let form = *rng.pick(&[0u8, 1, 2, 4]);
                out.push(template(kind, form, rng));
            }
            3 => {
                // zero-length push in a data slot, in every form
                let form = *rng.pick(&[9u8, 1, 2, 4]);
                let empty: Vec<u8> = if form == 9 { vec![0x00] } else { push_form(&[], form).unwrap() };
                let mut v = match rng.below(4) {
                    0 => vec![0x76, 0xa9],
                    1 => vec![],
                    2 => vec![0xa9],
                    _ => vec![0x6a],
                };
                let lead = v.first().copied();
                v.extend(empty);
                match lead {
                    Some(0x76) => v.extend_from_slice(&[0x88, 0xac]),
                    None => v.push(0xac),
                    Some(0xa9) => v.push(0x87),
                    _ => {}
                }
                out.push(v);
            }
            4 => {
                // truncation by 1..n bytes of a template instance
                let s = template(rng.below(7), *rng.pick(&[0u8, 1, 2, 4]), rng);
                let cut = rng.usize(1, s.len());
                out.push(s[..s.len() - cut].to_vec());
            }
            5 => {
                // PUSHDATA length pointing past the end
                let mut v = match rng.below(3) {
                    0 => vec![0x76, 0xa9],
                    1 => vec![0x6a],
                    _ => vec![],
                };
                let have = rng.usize(0, 30);
                let claim = have + rng.usize(1, 300);
                match rng.below(3) {
                    0 => {
                        v.push(0x4c);
                        v.push(claim.min(255) as u8);
                    }
                    1 => {
                        v.push(0x4d);
                        v.extend_from_slice(&(claim as u16).to_le_bytes());
                    }
                    _ => {
                        v.push(0x4e);
                        v.extend_from_slice(&(*rng.pick(&[claim as u32, 0x7fff_ffff, 0x8000_0000, 0xffff_ffff])).to_le_bytes());
                    }
                }
                v.extend(rng.bytes(have));
                out.push(v);
            }
            6 | 7 => {
                // no-op insertion at a token boundary of a template instance
                let s = template(rng.below(5), *rng.pick(&[0u8, 1, 2]), rng);
                if let Some(b) = boundaries(&s) {
                    let mut v = s.clone();
                    if rng.chance(1, 8) {
                        // hundreds of no-ops in one place (around the 201-operation limit of the reference
                        // client, which is no part of what makes a template a template)
                        let k = *rng.pick(&[150usize, 197, 198, 199, 200, 201, 202, 250, 1000]);
                        let at = *rng.pick(&b);
                        let ops: Vec<u8> = (0..k).map(|_| *rng.pick(&NOOPS)).collect();
                        let tail = v.split_off(at);
                        v.extend(ops);
                        v.extend(tail);
                    } else {
                        let k = rng.usize(1, 3);
                        for _ in 0..k {
                            if let Some(bb) = boundaries(&v) {
                                let at = *rng.pick(&bb);
                                v.insert(at, *rng.pick(&NOOPS));
                            }
                        }
                    }
                    out.push(v);
                }
            }
            8 => {
                // one-byte substitution / deletion / extension
                let mut s = template(rng.below(7), 0, rng);
                match rng.below(3) {
                    0 => {
                        let i = rng.usize(0, s.len() - 1);
                        s[i] = rng.next() as u8;
                    }
                    1 => {
                        let i = rng.usize(0, s.len() - 1);
                        s.remove(i);
                    }
                    _ => {
                        let i = rng.usize(0, s.len());
                        s.insert(i, rng.next() as u8);
                    }
                }
                out.push(s);
            }
            9 => {
                // leading opcode + random tail
                let mut v = vec![rng.next() as u8];
                v.extend(rng.bytes_range(0, 30));
                out.push(v);
            }
            10 => {
                let n = rng.usize(1, 8);
                out.push(random_tokens(rng, n));
            }
            11 => out.push(rng.bytes_range(0, 80)),
            12 => {
                // CLTV/CSV scripts (abstained on, but must not fail)
                let mut v = push(&rng.bytes(4));
                v.push(*rng.pick(&[0xb1u8, 0xb2]));
                v.push(0x75);
                v.extend(template(0, 0, rng));
                out.push(v);
            }
            _ => {
                // empty script, bare opcodes
                out.push(match rng.below(5) {
                    0 => vec![],
                    1 => vec![0x6a],
                    2 => vec![0xac],
                    3 => vec![0x4c],
                    _ => vec![0x4e, 0xff],
                });
            }
        }
    }
    out
}

/// scripts for bitcoin/testnet3 (C05)
pub fn bitcoin_scripts(rng: &mut Rng, n: usize) -> Vec<Vec<u8>> {
    let mut out: Vec<Vec<u8>> = Vec::with_capacity(n);
    let canon = |rng: &mut Rng| -> Vec<u8> {
        match rng.below(9) {
            0 => p2pkh(&rng.bytes(20)),
            1 => p2sh(&rng.bytes(20)),
            2 => p2pk(&fake_pubkey(rng, true)),
            3 => p2pk(&fake_pubkey(rng, false)),
            4 => witness_prog(0, &rng.bytes(20)),
            5 => witness_prog(0, &rng.bytes(32)),
            6 => witness_prog(1, &rng.bytes(32)),
            7 => {
                let n = rng.usize(1, 70);
                op_return(&text(rng, n))
            }
            _ => {
                let nn = rng.usize(1, 5);
                let m = rng.usize(1, nn);
                let keys: Vec<Vec<u8>> = (0..nn)
                    .map(|_| {
                        let c = rng.coin();
                        fake_pubkey(rng, c)
                    })
                    .collect();
                multisig(m as u8, &keys, nn as u8)
            }
        }
    };
    while out.len() < n {
        if rng.chance(1, 40) {
            out.push(well_known(rng));
            continue;
        }
        if rng.chance(1, 16) {
            if let Some(v) = near_duplicate(&out, rng) {
                out.push(v);
                continue;
            }
        }
        if rng.chance(1, 12) {
            if let Some(v) = retarget(&out, rng, true) {
                out.push(v);
                continue;
            }
        }
        if rng.chance(1, 14) {
            let inner = canon(rng);
            out.push(wrapped_template(rng, inner));
            continue;
        }
        if rng.chance(1, 15) {
            let inner = canon(rng);
            out.push(match rng.below(4) {
                0 => respelt_template(rng, inner),
                1 => one_opcode_prefix(rng, inner),
                2 => cut_length_field_tail(rng, inner),
                _ => {
                    let total = *rng.pick(&[7usize, 8, 8, 9, 15, 16, 17, 31, 32, 33, 63, 64, 65]);
                    padded_to_token_count(rng, inner, total)
                }
            });
            continue;
        }
        if rng.chance(1, 20) {
            // P2PK whose key is a real curve point in compressed, uncompressed or hybrid (06/07) encoding:
            // the address is HASH160 of the pushed bytes, whatever the encoding
            out.push(p2pk(&real_pubkey(rng)));
            continue;
        }
        match rng.below(16) {
            0..=3 => out.push(canon(rng)),
            4 | 5 => {
                // one-byte substitution at any position (all 256 values at opcode positions sampled)
                let mut s = canon(rng);
                if !s.is_empty() {
                    let i = if rng.coin() { *rng.pick(&[0usize, 1, 2, s.len() - 1, s.len().saturating_sub(2)]) } else { rng.usize(0, s.len() - 1) };
                    let i = i.min(s.len() - 1);
                    s[i] = rng.next() as u8;
                }
                out.push(s);
            }
            6 => {
                let mut s = canon(rng);
                if !s.is_empty() {
                    let i = rng.usize(0, s.len() - 1);
                    s.remove(i);
                }
                out.push(s);
            }
            7 => {
                let s = canon(rng);
                let cut = rng.usize(1, s.len().max(1));
                out.push(s[..s.len() - cut.min(s.len())].to_vec());
            }
            8 => {
                let mut s = canon(rng);
                let at = if rng.coin() { s.len() } else { rng.usize(0, s.len()) };
                s.insert(at, rng.next() as u8);
                out.push(s);
            }
            9 => {
                // all 256 leading opcodes with random tails
                let mut v = vec![(out.len() % 256) as u8];
                v.extend(rng.bytes_range(0, 40));
                out.push(v);
            }
            10 | 11 => {
                // witness versions 0..16 x program lengths 2..40 (and just outside)
                let ver = rng.below(17) as u8;
                let len = rng.usize(1, 42);
                let mut v = vec![if ver == 0 { 0 } else { 0x50 + ver }];
                v.push(len as u8);
                v.extend(rng.bytes(len));
                if rng.chance(1, 10) {
                    v.push(rng.next() as u8);
                }
                out.push(v);
            }
            12 => {
                // multisig grid 0<=m,n<=16 with n, n±1 keys
                let m = rng.below(17) as u8;
                let nn = rng.below(17) as u8;
                let mut nk = (nn as i32 + rng.range(0, 2) as i32 - 1).max(0) as usize;
                if rng.chance(1, 12) {
                    nk = *rng.pick(&[17usize, 18, 19, 20, 20, 21, 100, 255, 256, 257, 300]);
                }
                let keys: Vec<Vec<u8>> = (0..nk)
                    .map(|_| {
                        let c = rng.coin();
                        fake_pubkey(rng, c)
                    })
                    .collect();
                let mut ms = multisig(m, &keys, nn);
                // the token in front of OP_CHECKMULTISIG is not a number opcode (or is missing)
                if rng.chance(1, 5) {
                    let l = ms.len();
                    match rng.below(3) {
                        0 => ms[l - 2] = *rng.pick(&[0x61u8, 0x76, 0xac, 0x4f, 0x75, 0x87, 0xae]),
                        1 => {
                            ms.remove(l - 2);
                        }
                        _ => {
                            // the key count as a pushed byte (there is no OP_17…OP_20)
                            ms.truncate(l - 2);
                            ms.extend(crate::ser::push(&[if rng.coin() { nk as u8 } else { nn.max(1) }]));
                            ms.push(0xae);
                        }
                    }
                }
                out.push(ms);
            }
            13 => {
                let k = rng.usize(1, 10);
                out.push(random_tokens(rng, k));
            }
            14 => out.push(rng.bytes_range(0, 100)),
            _ => {
                let l = *rng.pick(&[0usize, 1, 2, 3, 4, 41, 42, 43, 1000, 9_999, 10_000, 10_001, 10_500, 20_000]);
                let mut v = rng.bytes(l);
                // long scripts with a harmless leading opcode (the lead decides unspendable/unrecognised)
                if l > 100 && rng.coin() {
                    v[0] = *rng.pick(&[0x51u8, 0x76, 0xa9, 0x00, 0x21, 0xac, 0x6a]);
                }
                out.push(v);
            }
        }
    }
    out
}

/// hostile byte strings (C14): length 0..100 KB
pub fn hostile(rng: &mut Rng) -> Vec<u8> {
    match rng.below(17) {
        15 => {
            // OP_RETURN + one push of valid multi-byte UTF-8 of any length (character boundaries at every
            // byte offset relative to any fixed cut a diagnostic might make)
            let (a, b) = (rng.usize(0, 3), rng.usize(1, 120));
            let mut t = text(rng, a);
            t.extend(utf8_text(rng, b));
            let mut v = vec![0x6a];
            v.extend(crate::ser::push(&t));
            v
        }
        16 => {
            // OP_RETURN + ASCII interleaved with invalid bytes (lossy decoding puts U+FFFD at arbitrary offsets)
            let n = rng.usize(1, 200);
            let t: Vec<u8> = (0..n).map(|_| if rng.chance(1, 3) { 0x80 | rng.next() as u8 } else { b'a' + rng.below(26) as u8 }).collect();
            let mut v = vec![0x6a];
            v.extend(crate::ser::push(&t));
            v
        }
        12 => {
            // very short scripts: every opcode alone, OP_RETURN / push opcodes with 0..2 following bytes
            match rng.below(4) {
                0 => vec![rng.next() as u8],
                1 => vec![*rng.pick(&[0x6au8, 0x4c, 0x4d, 0x4e, 0x00, 0x01, 0x4b, 0x51, 0x60, 0xac, 0xae, 0xa9, 0x76, 0xff])],
                2 => vec![*rng.pick(&[0x6au8, 0x00, 0x51, 0x76, 0xa9]), rng.next() as u8],
                _ => vec![0x6a, *rng.pick(&[0x4cu8, 0x4d, 0x4e, 0x01, 0x02]), rng.next() as u8],
            }
        }
        14 => {
            // multisig look-alike with hundreds of pushes: OP_m <push>*k [OP_n OP_CHECKMULTISIG]
            let k = *rng.pick(&[17usize, 20, 21, 100, 255, 256, 257, 300, 1000]);
            let mut v = vec![0x50 + rng.range(1, 16) as u8];
            for _ in 0..k {
                match rng.below(3) {
                    0 => v.push(0x00),
                    1 => {
                        v.push(1);
                        v.push(rng.next() as u8);
                    }
                    _ => {
                        v.push(33);
                        v.extend(rng.bytes(33));
                    }
                }
            }
            if rng.coin() {
                v.push(0x50 + rng.range(1, 16) as u8);
                v.push(0xae);
            }
            v
        }
        13 => {
            // an otherwise canonical template whose data slot is hostile
            let mut v = vec![0x76, 0xa9];
            let l = *rng.pick(&[0usize, 1, 19, 21, 32, 75, 76, 255, 256, 520, 521, 10_000]);
            v.extend(crate::ser::push(&rng.bytes(l)));
            v.extend_from_slice(&[0x88, 0xac]);
            v
        }
        0 => {
            // truncated push of every width
            let mut v = match rng.below(4) {
                0 => vec![rng.range(1, 75) as u8],
                1 => vec![0x4c, rng.next() as u8],
                2 => vec![0x4d, rng.next() as u8, rng.next() as u8],
                _ => vec![0x4e, rng.next() as u8, rng.next() as u8, rng.next() as u8, rng.next() as u8],
            };
            let cut = rng.usize(0, v.len() - 1);
            v.truncate(v.len() - cut);
            v.extend(rng.bytes_range(0, 3));
            v
        }
        1 => {
            let mut v = vec![0x4e];
            v.extend_from_slice(&(*rng.pick(&[0x7fff_ffffu32, 0x8000_0000, 0xffff_ffff, 0xffff_fffe])).to_le_bytes());
            v.extend(rng.bytes_range(0, 50));
            v
        }
        2 => {
            let mut v = vec![rng.next() as u8];
            v.extend(rng.bytes_range(0, 200));
            v
        }
        3 => {
            // OP_RETURN + invalid UTF-8
            let mut v = vec![0x6a];
            let n = rng.usize(1, 75);
            v.push(n as u8);
            v.extend((0..n).map(|_| 0x80 | (rng.next() as u8)));
            v
        }
        4 => {
            // witness-program look-alikes with illegal lengths
            let mut v = vec![*rng.pick(&[0x00u8, 0x51, 0x60, 0x4f, 0x61])];
            let l = *rng.pick(&[0usize, 1, 41, 42, 75]);
            v.push(l as u8);
            v.extend(rng.bytes_range(0, l + 2));
            v
        }
        5 => {
            // thousands of 1-byte pushes
            let n = rng.usize(1000, 20_000);
            let mut v = Vec::with_capacity(n * 2);
            for _ in 0..n {
                v.push(1);
                v.push(rng.next() as u8);
            }
            v
        }
        6 => vec![0xff; rng.usize(1, 100_000)],
        7 => vec![0x00; rng.usize(1, 100_000)],
        8 if rng.chance(1, 6) => {
            // beyond 100 KB: buffer-growth edges (2^17 and neighbours, 2^18, 1 MB)
            let n = *rng.pick(&[131_071usize, 131_072, 131_073, 150_000, 262_145, 1_000_000]);
            let mut v = rng.bytes(64);
            v.resize(n, 0x51);
            v
        }
        8 => rng.bytes_range(0, 100_000),
        9 => {
            // PUSHDATA2 claiming exactly / one more than what follows
            let have = rng.usize(0, 70_000).min(65535);
            let mut v = vec![0x4d];
            v.extend_from_slice(&((have + rng.usize(0, 1)).min(65535) as u16).to_le_bytes());
            v.extend(rng.bytes(have));
            v
        }
        10 => {
            // nested template fragments
            let mut v = vec![];
            for _ in 0..rng.usize(1, 50) {
                v.extend_from_slice(&[0x76, 0xa9, 0x14]);
                v.extend(rng.bytes_range(0, 20));
            }
            v
        }
        _ => vec![],
    }
}
