mod check;
mod collide;
mod desc;
mod exec;
mod gen;
mod obs;
mod oracle;
mod props;
mod render;
mod scriptgen;
mod scriptref;
mod selftest;
mod ser;
mod shrink;
mod util;
mod world;

use check::*;
use std::path::PathBuf;

fn usage() -> ! {
    eprintln!("usage: rbpsim check <ID> [quick|thorough] | replay <file> | selftest");
    std::process::exit(2);
}

fn scratch_root() -> PathBuf {
    let base = if std::path::Path::new("/dev/shm").is_dir() { PathBuf::from("/dev/shm") } else { std::env::temp_dir() };
    // sweep leftovers of dead driver processes
    if let Ok(rd) = std::fs::read_dir(&base) {
        for ent in rd.flatten() {
            let n = ent.file_name().to_string_lossy().into_owned();
            if let Some(rest) = n.strip_prefix("rbpsim.") {
                if let Ok(pid) = rest.parse::<u32>() {
                    if !std::path::Path::new(&format!("/proc/{}", pid)).exists() {
                        let _ = std::fs::remove_dir_all(ent.path());
                    }
                }
            }
        }
    }
    let p = base.join(format!("rbpsim.{}", std::process::id()));
    std::fs::create_dir_all(&p).expect("scratch");
    p
}

fn main() {
    let args: Vec<String> = std::env::args().collect();
    if args.len() < 2 {
        usage();
    }
    let verif = PathBuf::from(std::env::var("RBPSIM_VERIF").unwrap_or_else(|_| "/verif".into()));
    let sut = PathBuf::from(std::env::var("RBPSIM_SUT").unwrap_or_else(|_| "/verif/.build/sut/release/rusty-blockparser".into()));
    let self_exe = std::env::current_exe().expect("current_exe");
    exec::start_watchdog();
    let code = match args[1].as_str() {
        "selftest" => selftest::run(),
        "check" => {
            if args.len() < 3 {
                usage();
            }
            let id = args[2].to_uppercase();
            let tier = match args.get(3).map(|s| s.as_str()).or(std::env::var("VERIF_TIER").ok().as_deref().map(|_| "")).unwrap_or("quick") {
                "thorough" => Tier::Thorough,
                "" => match std::env::var("VERIF_TIER").ok().as_deref() {
                    Some("thorough") => Tier::Thorough,
                    _ => Tier::Quick,
                },
                _ => Tier::Quick,
            };
            let seed = std::env::var("VERIF_SEED").ok().and_then(|s| s.parse::<u64>().ok()).unwrap_or(1);
            let workers = std::env::var("RBPSIM_WORKERS").ok().and_then(|s| s.parse().ok()).unwrap_or(16);
            let st = selftest::run();
            if st != 0 {
                println!("HARNESS-ERROR model self-test failed");
                std::process::exit(2);
            }
            let props = props::all();
            let prop = match props.iter().find(|p| p.id() == id) {
                Some(p) => p,
                None => {
                    eprintln!("unknown property {}", id);
                    std::process::exit(2);
                }
            };
            let scratch = scratch_root();
            let env = CheckEnv {
                verif,
                sut,
                scratch: scratch.clone(),
                workers,
                seed,
                tier,
                self_exe,
                no_shrink: std::env::var("RBPSIM_NO_SHRINK").is_ok(),
            };
            let c = run_check(prop.as_ref(), &env);
            let _ = std::fs::remove_dir_all(&scratch);
            c
        }
        "dump-index" => match world::dump_index_child(&PathBuf::from(&args[2]), &PathBuf::from(&args[3]), &PathBuf::from(&args[4])) {
            Ok(()) => 0,
            Err(e) => {
                eprintln!("{}", e);
                2
            }
        },
        "collide" => collide::run(args.get(2).map(|s| s == "tail").unwrap_or(false)),
        "world" => {
            // debugging aid: build the data directory of a scenario's first run into <dir> and print the argv
            let text = std::fs::read_to_string(&args[2]).expect("read scenario");
            let scn: desc::Scenario = serde_json::from_str(&text).expect("parse scenario");
            let dir = PathBuf::from(&args[3]);
            let built = ser::build_all(&scn);
            let r = &scn.runs[0];
            world::build_world(&scn, &built, &scn.layouts[r.layout], &r.disk_faults, &dir.join("data")).expect("build world");
            std::fs::create_dir_all(dir.join("dump")).unwrap();
            std::fs::write(dir.join("plan.txt"), r.plan.to_text()).unwrap();
            println!("RAYON_NUM_THREADS={} RBPSIM_PLAN={} {} {}", r.threads, dir.join("plan.txt").display(), sut.display(), exec::argv_of(&scn, r, &dir.join("data"), &dir.join("dump")).join(" "));
            0
        }
        "replay" => {
            if args.len() < 3 {
                usage();
            }
            let text = std::fs::read_to_string(&args[2]).unwrap_or_else(|e| {
                eprintln!("cannot read {}: {}", args[2], e);
                std::process::exit(2)
            });
            let scn: desc::Scenario = serde_json::from_str(&text).unwrap_or_else(|e| {
                eprintln!("cannot parse {}: {}", args[2], e);
                std::process::exit(2)
            });
            let props = props::all();
            let prop = match props.iter().find(|p| p.id() == scn.property) {
                Some(p) => p,
                None => {
                    eprintln!("unknown property {}", scn.property);
                    std::process::exit(2);
                }
            };
            let scratch = scratch_root();
            let c = replay(prop.as_ref(), &sut, &scratch, &scn);
            let _ = std::fs::remove_dir_all(&scratch);
            c
        }
        _ => usage(),
    };
    std::process::exit(code);
}
