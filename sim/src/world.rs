//! World builder: turns a scenario's layout/index description into a real data
//! directory (blk*.dat, xor.dat, index/ LevelDB) on tmpfs.
use crate::desc::*;
use crate::ser::*;
use crate::util::*;
use rusty_leveldb::{Options, DB};
use std::collections::HashMap;
use std::fs;
use std::io::{Seek, SeekFrom, Write};
use std::path::{Path, PathBuf};

pub const STATUS_ACTIVE: u64 = 5 | 8 | 16; // VALID_SCRIPTS | HAVE_DATA | HAVE_UNDO

#[derive(Clone, Debug, Default)]
pub struct Placement {
    pub file: u64,
    /// offset of the block payload (the value stored in the index)
    pub pos: u64,
    pub len: u64,
}

#[derive(Clone, Debug, Default)]
pub struct WorldInfo {
    /// placement of active blocks by chain position
    pub active: Vec<Option<Placement>>,
    pub extras: Vec<Option<Placement>>,
    pub file_names: HashMap<u64, String>,
    pub file_sizes: HashMap<u64, u64>,
}

pub fn blk_name(number: u64, width: usize) -> String {
    format!("blk{:0width$}.dat", number, width = width)
}

fn xor_in_place(buf: &mut [u8], key: &[u8], file_off: u64) {
    if key.is_empty() {
        return;
    }
    let kl = key.len() as u64;
    for (i, b) in buf.iter_mut().enumerate() {
        *b ^= key[((file_off + i as u64) % kl) as usize];
    }
}

fn ntx(mode: u8, n: u64, hash: &[u8; 32]) -> u64 {
    match mode {
        0 => n,
        1 => 0,
        2 => n + 1,
        _ => u32::from_le_bytes([hash[0], hash[1], hash[2], hash[3]]) as u64,
    }
}

/// Writes the data directory. `faults` are stored-state faults for this run.
pub fn build_world(scn: &Scenario, built: &Built, layout: &Layout, faults: &[DiskFault], dir: &Path) -> Result<WorldInfo, String> {
    let e = |x: std::io::Error| format!("world: {}", x);
    if dir.exists() {
        fs::remove_dir_all(dir).map_err(e)?;
    }
    fs::create_dir_all(dir).map_err(e)?;
    // the sibling directory that holds the targets of symbolic links belongs to this world too
    let side_dir = dir.parent().unwrap_or(dir).join(format!("{}-moved", dir.file_name().and_then(|n| n.to_str()).unwrap_or("data")));
    if side_dir.exists() {
        fs::remove_dir_all(&side_dir).map_err(e)?;
    }
    if let Some(k) = &layout.side_xor {
        if !layout.xor_symlink {
            fs::create_dir_all(&side_dir).map_err(e)?;
            fs::write(side_dir.join("xor.dat"), &k.0).map_err(e)?;
        }
    }
    let magic = coin_params(&scn.coin).magic.to_le_bytes();
    let key: Vec<u8> = layout.xor_key.as_ref().map(|k| k.0.clone()).unwrap_or_default();
    let mut info = WorldInfo {
        active: vec![None; scn.chain.len()],
        extras: vec![None; scn.extras.len()],
        ..Default::default()
    };

    // bit flips are applied to the plaintext payload before it is written
    let mut flips: HashMap<usize, Vec<(u64, u8)>> = HashMap::new();
    for f in faults {
        if let DiskFault::FlipBit { height, off, bit } = f {
            if *height >= scn.base_height {
                flips.entry((*height - scn.base_height) as usize).or_default().push((*off, *bit));
            }
        }
    }

    // xor.dat is created before the blk files in half of the worlds, after them in the other half
    let xor_first = scn.index.order_seed & 2 == 0;
    if !key.is_empty() && xor_first {
        if layout.xor_symlink {
            let side = dir.parent().unwrap_or(dir).join(format!("{}-moved", dir.file_name().and_then(|n| n.to_str()).unwrap_or("data")));
            fs::create_dir_all(&side).map_err(e)?;
            fs::write(side.join("xor.dat"), &key).map_err(e)?;
            let _ = fs::remove_file(dir.join("xor.dat"));
            std::os::unix::fs::symlink(side.join("xor.dat"), dir.join("xor.dat")).map_err(e)?;
        } else {
            fs::write(dir.join("xor.dat"), &key).map_err(e)?;
        }
    }
    // directory iteration order depends on creation order on some file systems:
    // half of the extra entries are created before the blk files, half after
    for (k, x) in layout.extra_files.iter().enumerate() {
        if k % 2 == 0 {
            let p = dir.join(&x.name);
            if let Some(t) = &x.symlink_to {
                let _ = fs::remove_file(&p);
                std::os::unix::fs::symlink(t, &p).map_err(e)?;
            } else if x.is_dir {
                fs::create_dir_all(&p).map_err(e)?;
            } else {
                fs::write(&p, &x.bytes.0).map_err(|z| format!("world: extra file {}: {}", p.display(), z))?;
            }
        }
    }
    for f in &layout.files {
        let name = blk_name(f.number, f.width);
        let path = if f.symlink {
            let side = dir.parent().unwrap_or(dir).join(format!("{}-moved", dir.file_name().and_then(|n| n.to_str()).unwrap_or("data")));
            fs::create_dir_all(&side).map_err(e)?;
            let real = side.join(&name);
            let _ = fs::remove_file(&real);
            std::os::unix::fs::symlink(&real, dir.join(&name)).map_err(e)?;
            if layout.link_chain {
                let objects = side.join("objects");
                fs::create_dir_all(&objects).map_err(e)?;
                let obj = objects.join(format!("SHA256-{:016x}", f.number.wrapping_mul(0x9e37_79b9_7f4a_7c15)));
                let _ = fs::remove_file(&obj);
                std::os::unix::fs::symlink(&obj, &real).map_err(e)?;
                obj
            } else {
                real
            }
        } else {
            dir.join(&name)
        };
        let mut file = fs::File::create(&path).map_err(|x| format!("world: create {}: {}", path.display(), x))?;
        let mut off: u64 = 0;
        for seg in &f.segs {
            match seg {
                Seg::Active { i } | Seg::Extra { i } => {
                    let is_active = matches!(seg, Seg::Active { .. });
                    let bb = if is_active { built.active.get(*i) } else { built.extras.get(*i) };
                    let bb = match bb {
                        Some(b) => b,
                        None => continue, // shrunk away
                    };
                    let mut payload = bb.bytes.clone();
                    if is_active {
                        if let Some(fl) = flips.get(i) {
                            for (o, bit) in fl {
                                if (*o as usize) < payload.len() {
                                    payload[*o as usize] ^= 1 << (bit & 7);
                                }
                            }
                        }
                    }
                    let mut rec = Vec::with_capacity(payload.len() + 8);
                    match layout.magic_mode {
                        0 => rec.extend_from_slice(&magic),
                        1 => rec.extend_from_slice(&[0u8; 4]),
                        2 => rec.extend_from_slice(&if magic == [0xfa, 0xbf, 0xb5, 0xda] { [0x0au8, 0x03, 0xcf, 0x40] } else { [0xfa, 0xbf, 0xb5, 0xda] }),
                        _ => rec.extend_from_slice(&bb.hash[4..8]),
                    }
                    let stored = if is_active { crate::render::stored_size(scn, *i, payload.len()) } else { payload.len() as u64 };
                    rec.extend_from_slice(&(stored as u32).to_le_bytes());
                    rec.extend_from_slice(&payload);
                    xor_in_place(&mut rec, &key, off);
                    file.write_all(&rec).map_err(e)?;
                    let pl = Placement {
                        file: f.number,
                        pos: off + 8,
                        len: payload.len() as u64,
                    };
                    if is_active {
                        info.active[*i] = Some(pl);
                    } else {
                        info.extras[*i] = Some(pl);
                    }
                    off += rec.len() as u64;
                }
                Seg::Garbage { bytes } => {
                    let mut g = bytes.0.clone();
                    xor_in_place(&mut g, &key, off);
                    file.write_all(&g).map_err(e)?;
                    off += g.len() as u64;
                }
                Seg::Zero { n } => {
                    // plaintext zeros (what Core pre-allocates) → stored as key stream when obfuscated
                    let mut left = *n;
                    while left > 0 {
                        let c = left.min(1 << 16) as usize;
                        let mut z = vec![0u8; c];
                        xor_in_place(&mut z, &key, off);
                        file.write_all(&z).map_err(e)?;
                        off += c as u64;
                        left -= c as u64;
                    }
                }
                Seg::Hole { n } => {
                    off += *n;
                    file.seek(SeekFrom::Start(off)).map_err(e)?;
                }
            }
        }
        file.set_len(off).map_err(e)?;
        drop(file);
        info.file_names.insert(f.number, name);
        info.file_sizes.insert(f.number, off);
    }
    if !key.is_empty() && !xor_first {
        if layout.xor_symlink {
            let side = dir.parent().unwrap_or(dir).join(format!("{}-moved", dir.file_name().and_then(|n| n.to_str()).unwrap_or("data")));
            fs::create_dir_all(&side).map_err(e)?;
            fs::write(side.join("xor.dat"), &key).map_err(e)?;
            let _ = fs::remove_file(dir.join("xor.dat"));
            std::os::unix::fs::symlink(side.join("xor.dat"), dir.join("xor.dat")).map_err(e)?;
        } else {
            fs::write(dir.join("xor.dat"), &key).map_err(e)?;
        }
    }
    for (k, x) in layout.extra_files.iter().enumerate() {
        if k % 2 == 0 {
            continue;
        }
        let p = dir.join(&x.name);
        if let Some(t) = &x.symlink_to {
            let _ = fs::remove_file(&p);
            std::os::unix::fs::symlink(t, &p).map_err(e)?;
        } else if x.is_dir {
            fs::create_dir_all(&p).map_err(e)?;
        } else {
            fs::write(&p, &x.bytes.0).map_err(e)?;
        }
    }

    // ---- index records
    let mut pos_override: HashMap<u64, (u64, u64)> = HashMap::new(); // height -> (file,pos)
    for f in faults {
        match f {
            DiskFault::PosPastEof { height } => {
                if let Some(Some(p)) = height.checked_sub(scn.base_height).and_then(|i| info.active.get(i as usize)) {
                    let sz = info.file_sizes.get(&p.file).copied().unwrap_or(0);
                    pos_override.insert(*height, (p.file, sz + 4 + (height % 97)));
                }
            }
            DiskFault::SwapActive { height, with_height } => {
                if let Some(Some(p)) = with_height.checked_sub(scn.base_height).and_then(|i| info.active.get(i as usize)) {
                    pos_override.insert(*height, (p.file, p.pos));
                }
            }
            DiskFault::SwapExtra { height, with_extra } => {
                if let Some(Some(p)) = info.extras.get(*with_extra) {
                    pos_override.insert(*height, (p.file, p.pos));
                }
            }
            _ => {}
        }
    }

    let cv = if scn.index.client_version == 0 { 259900 } else { scn.index.client_version };
    let mut records: Vec<(Vec<u8>, Vec<u8>)> = Vec::new();
    let mut undo = scn.index.undo_pos_base;
    let mut mk = |hash: &[u8; 32], height: u64, status: u64, ntx: u64, place: Option<(u64, u64)>, header: &[u8]| {
        let mut k = vec![b'b'];
        k.extend_from_slice(hash);
        let mut v = Vec::new();
        v.extend(core_varint(cv));
        v.extend(core_varint(height));
        v.extend(core_varint(status));
        v.extend(core_varint(ntx));
        if status & (8 | 16) != 0 {
            v.extend(core_varint(place.map(|p| p.0).unwrap_or(0)));
        }
        if status & 8 != 0 {
            v.extend(core_varint(place.map(|p| p.1).unwrap_or(0)));
        }
        if status & 16 != 0 {
            undo += 1 + (height % 1000);
            v.extend(core_varint(undo));
        }
        v.extend_from_slice(&header[..80.min(header.len())]);
        (k, v)
    };
    for (i, bb) in built.active.iter().enumerate() {
        let h = scn.base_height + i as u64;
        let place = match pos_override.get(&h) {
            Some(p) => Some(*p),
            None => info.active[i].as_ref().map(|p| (p.file, p.pos)),
        };
        if place.is_none() {
            continue; // block not stored in this layout (index segment only)
        }
        // block 0 has no undo data in Bitcoin Core's index
        let st = if h < scn.index.pruned_below || scn.index.pruned_at.contains(&h) {
            5
        } else if h == 0 {
            5 | 8
        } else {
            STATUS_ACTIVE & !(scn.index.active_clear_status & !8)
        } | scn.index.active_extra_status;
        let mut key_hash = bb.hash;
        if let Some((_, o)) = scn.index.key_overrides.iter().find(|(hh, _)| *hh == h) {
            if o.0.len() == 32 {
                key_hash.copy_from_slice(&o.0);
            }
        }
        records.push(mk(&key_hash, h, st, ntx(scn.index.ntx_mode, scn.chain[i].txs.len() as u64, &bb.hash), place, &bb.bytes));
    }
    for (i, x) in scn.extras.iter().enumerate() {
        if let Some(ix) = &x.index {
            let bb = &built.extras[i];
            let place = info.extras[i].as_ref().map(|p| (p.file, p.pos));
            records.push(mk(&bb.hash, ix.height, ix.status, ntx(scn.index.ntx_mode, x.block.txs.len() as u64, &bb.hash), place, &bb.bytes));
        }
    }
    for (k, v) in &scn.index.extra_keys {
        records.push((k.0.clone(), v.0.clone()));
    }
    if scn.index.file_info {
        // CBlockFileInfo: nBlocks, nSize, nUndoSize, nHeightFirst, nHeightLast, nTimeFirst, nTimeLast (VarInts)
        let mut per: std::collections::BTreeMap<u64, (u64, u64, u64, u64, u64, u64)> = Default::default();
        let mut add = |file: u64, end: u64, height: u64, time: u64| {
            let e = per.entry(file).or_insert((0, 0, u64::MAX, 0, u64::MAX, 0));
            e.0 += 1;
            e.1 = e.1.max(end);
            e.2 = e.2.min(height);
            e.3 = e.3.max(height);
            e.4 = e.4.min(time);
            e.5 = e.5.max(time);
        };
        for (i, p) in info.active.iter().enumerate() {
            if let Some(p) = p {
                add(p.file, p.pos + p.len, scn.base_height + i as u64, scn.chain[i].time as u64);
            }
        }
        for (i, p) in info.extras.iter().enumerate() {
            if let (Some(p), Some(ix)) = (p, scn.extras[i].index.as_ref()) {
                add(p.file, p.pos + p.len, ix.height, scn.extras[i].block.time as u64);
            }
        }
        let mut last_file = 0u64;
        for (file, (n, size, hf, hl, tf, tl)) in &per {
            // Core keys file records by a 4-byte file number; larger numbers have no such record
            if *file > u32::MAX as u64 {
                continue;
            }
            last_file = last_file.max(*file);
            let mut k = vec![b'f'];
            k.extend_from_slice(&(*file as u32).to_le_bytes());
            let mut v = Vec::new();
            for x in [*n, *size, n * 40, *hf, *hl, *tf, *tl] {
                v.extend(core_varint(x));
            }
            if !records.iter().any(|(kk, _)| *kk == k) {
                records.push((k, v));
            }
        }
        let lk = vec![b'l'];
        if !records.iter().any(|(kk, _)| *kk == lk) {
            records.push((lk, (last_file as u32).to_le_bytes().to_vec()));
        }
    }
    let mut rng = Rng::new(scn.index.order_seed ^ 0x51ab);
    if scn.index.order_seed != 0 {
        rng.shuffle(&mut records);
    }
    write_index(&dir.join("index"), &records, &scn.index.storage)?;

    // ---- file-level faults last
    for f in faults {
        let file_of = |h: &u64| -> Option<(u64, Placement)> {
            h.checked_sub(scn.base_height)
                .and_then(|i| info.active.get(i as usize))
                .and_then(|p| p.clone())
                .map(|p| (p.file, p))
        };
        match f {
            DiskFault::RemoveFile { height } => {
                if let Some((n, _)) = file_of(height) {
                    let _ = fs::remove_file(dir.join(&info.file_names[&n]));
                }
            }
            DiskFault::EmptyFile { height } => {
                if let Some((n, _)) = file_of(height) {
                    fs::write(dir.join(&info.file_names[&n]), b"").map_err(e)?;
                    info.file_sizes.insert(n, 0);
                }
            }
            DiskFault::Truncate { height, off } => {
                if let Some((n, p)) = file_of(height) {
                    let at = p.pos - 4 + off;
                    let fh = fs::OpenOptions::new().write(true).open(dir.join(&info.file_names[&n])).map_err(e)?;
                    fh.set_len(at).map_err(e)?;
                    info.file_sizes.insert(n, at);
                }
            }
            _ => {}
        }
    }
    Ok(info)
}

pub fn write_index(path: &Path, records: &[(Vec<u8>, Vec<u8>)], storage: &str) -> Result<(), String> {
    let e = |x: rusty_leveldb::Status| format!("leveldb: {}", x);
    let mut opt = Options::default();
    opt.create_if_missing = true;
    match storage {
        "multi" => {
            opt.write_buffer_size = 2048;
        }
        "compact" => {
            opt.write_buffer_size = 4096;
        }
        _ => {}
    }
    let mut db = DB::open(path, opt).map_err(e)?;
    for (k, v) in records {
        db.put(k, v).map_err(e)?;
    }
    match storage {
        "flush" | "multi" => {
            db.flush().map_err(e)?;
        }
        "compact" => {
            db.flush().map_err(e)?;
            let _ = db.compact_range(&[0u8], &[0xffu8; 40]);
        }
        _ => {
            db.flush().map_err(e)?;
        }
    }
    db.close().map_err(e)?;
    Ok(())
}

/// logical content of an index directory (read from a copy, so the original is untouched)
pub fn dump_index(path: &Path, scratch: &Path) -> Result<Vec<(Vec<u8>, Vec<u8>)>, String> {
    use rusty_leveldb::LdbIterator;
    let e = |x: std::io::Error| format!("dump_index: {}", x);
    if scratch.exists() {
        fs::remove_dir_all(scratch).map_err(e)?;
    }
    fs::create_dir_all(scratch).map_err(e)?;
    for ent in fs::read_dir(path).map_err(e)? {
        let ent = ent.map_err(e)?;
        fs::copy(ent.path(), scratch.join(ent.file_name())).map_err(e)?;
    }
    let _ = fs::remove_file(scratch.join("LOCK"));
    let mut db = DB::open(scratch, Options::default()).map_err(|x| format!("leveldb: {}", x))?;
    let mut it = db.new_iter().map_err(|x| format!("leveldb: {}", x))?;
    let mut out = Vec::new();
    let (mut k, mut v) = (vec![], vec![]);
    while it.advance() {
        it.current(&mut k, &mut v);
        out.push((k.clone(), v.clone()));
    }
    drop(it);
    let _ = db.close();
    let _ = fs::remove_dir_all(scratch);
    Ok(out)
}

/// `dump_index` in a child process with a deadline. rusty-leveldb 3.0.2's DBIterator can stall in its
/// read-sampling random walk (DESIGN §11.2); in the driver there is no watchdog, so the iteration is done
/// by `rbpsim dump-index` and repeated if it does not finish in time.
pub fn dump_index_guarded(path: &Path, scratch: &Path) -> Result<Vec<(Vec<u8>, Vec<u8>)>, String> {
    let exe = std::env::current_exe().map_err(|e| format!("dump_index: {}", e))?;
    let out = scratch.with_extension("dump");
    for attempt in 0..8 {
        let _ = fs::remove_file(&out);
        let mut child = std::process::Command::new(&exe)
            .arg("dump-index")
            .arg(path)
            .arg(scratch)
            .arg(&out)
            .stdin(std::process::Stdio::null())
            .spawn()
            .map_err(|e| format!("dump_index: spawn: {}", e))?;
        let t0 = std::time::Instant::now();
        let status = loop {
            match child.try_wait().map_err(|e| format!("dump_index: {}", e))? {
                Some(st) => break Some(st),
                None => {
                    if t0.elapsed() > std::time::Duration::from_secs(20 + 20 * attempt) {
                        let _ = child.kill();
                        let _ = child.wait();
                        eprintln!("dump_index: iteration of {} stalled, attempt {} abandoned", path.display(), attempt + 1);
                        break None;
                    }
                    std::thread::sleep(std::time::Duration::from_millis(if t0.elapsed().as_millis() < 50 { 1 } else { 10 }));
                }
            }
        };
        if let Some(st) = status {
            if !st.success() {
                return Err(format!("dump_index: child failed with {:?}", st));
            }
            let text = fs::read(&out).map_err(|e| format!("dump_index: {}", e))?;
            let _ = fs::remove_file(&out);
            // records: u32 klen, key, u32 vlen, value
            let mut recs = Vec::new();
            let mut i = 0usize;
            while i + 4 <= text.len() {
                let kl = u32::from_le_bytes([text[i], text[i + 1], text[i + 2], text[i + 3]]) as usize;
                let k = text[i + 4..i + 4 + kl].to_vec();
                i += 4 + kl;
                let vl = u32::from_le_bytes([text[i], text[i + 1], text[i + 2], text[i + 3]]) as usize;
                let v = text[i + 4..i + 4 + vl].to_vec();
                i += 4 + vl;
                recs.push((k, v));
            }
            return Ok(recs);
        }
    }
    Err("dump_index: the index could not be iterated in 8 attempts".into())
}

/// body of `rbpsim dump-index <index dir> <scratch dir> <out file>`
pub fn dump_index_child(path: &Path, scratch: &Path, out: &Path) -> Result<(), String> {
    let recs = dump_index(path, scratch)?;
    let mut buf = Vec::new();
    for (k, v) in recs {
        buf.extend_from_slice(&(k.len() as u32).to_le_bytes());
        buf.extend_from_slice(&k);
        buf.extend_from_slice(&(v.len() as u32).to_le_bytes());
        buf.extend_from_slice(&v);
    }
    fs::write(out, buf).map_err(|e| format!("dump_index: {}", e))
}

/// sha256 over names+contents of blk*.dat and xor.dat
pub fn data_digest(dir: &Path) -> Result<String, String> {
    let e = |x: std::io::Error| format!("digest: {}", x);
    let mut names: Vec<PathBuf> = Vec::new();
    for ent in fs::read_dir(dir).map_err(e)? {
        let ent = ent.map_err(e)?;
        let n = ent.file_name().to_string_lossy().into_owned();
        if ent.path().is_file() && ((n.starts_with("blk") && n.ends_with(".dat")) || n == "xor.dat") {
            names.push(ent.path());
        }
    }
    names.sort();
    let mut acc = Vec::new();
    for p in names {
        acc.extend_from_slice(p.file_name().unwrap().to_string_lossy().as_bytes());
        let data = fs::read(&p).map_err(e)?;
        acc.extend_from_slice(&(data.len() as u64).to_le_bytes());
        acc.extend_from_slice(&sha256_(&data));
    }
    Ok(hex(&sha256_(&acc)))
}
