//! C07 — unspent dump = exactly the unspent address-bearing outputs of the range.
//! C08 — balances = per-address sums (and = aggregation of the unspent dump).
use crate::check::*;
use crate::desc::*;
use crate::exec::*;
use crate::gen::*;
use crate::obs::*;
use crate::oracle::*;
use crate::render::Model;
use crate::ser::*;
use crate::util::*;
use std::collections::BTreeMap;

pub struct C07;
pub struct C08;

#[derive(Clone, Copy, PartialEq, Eq, Debug)]
enum Op {
    Create1,
    Create2,
    SpendFirst,
    SpendLast,
    SpendUnknown,
    RepeatFirst,
}
const OPS: [Op; 6] = [Op::Create1, Op::Create2, Op::SpendFirst, Op::SpendLast, Op::SpendUnknown, Op::RepeatFirst];

struct Hist {
    blocks: Vec<Vec<TxDesc>>,
    live: Vec<(Vec<u8>, u32)>,
    all_txs: Vec<TxDesc>,
    counter: u64,
    /// outputs above 21M coins created so far (bounded: 16 x 2^56 stays far below 2^64 on one address)
    big_values: u32,
}

impl Hist {
    fn new() -> Hist {
        Hist {
            blocks: vec![vec![]],
            live: vec![],
            all_txs: vec![],
            counter: 0,
            big_values: 0,
        }
    }
    fn new_block(&mut self) {
        self.blocks.push(vec![]);
    }
    fn add(&mut self, tx: TxDesc, track: bool, coin: &str) {
        let id = txid_of(&tx).to_vec();
        if track {
            for i in &tx.inputs {
                let mut p = i.prev_txid.0.clone();
                p.resize(32, 0);
                self.live.retain(|(t, x)| !(*t == p && *x == i.prev_index));
            }
            // a re-included identical tx replaces its earlier outputs: drop them once, then add
            let addr_outs: Vec<u32> = tx
                .outputs
                .iter()
                .enumerate()
                .filter(|(_, o)| matches!(crate::scriptref::eval(coin, &o.script.0).addr, crate::scriptref::AddrV::Some(_)))
                .map(|(k, _)| k as u32)
                .collect();
            let set: std::collections::HashSet<u32> = addr_outs.iter().copied().collect();
            self.live.retain(|(t, x)| !(*t == id && set.contains(x)));
            for k in addr_outs {
                self.live.push((id.clone(), k));
            }
        }
        self.all_txs.push(tx.clone());
        self.blocks.last_mut().unwrap().push(tx);
    }
    fn funding_input(&mut self) -> InDesc {
        self.counter += 1;
        InDesc {
            prev_txid: Bytes(vec![0; 32]),
            prev_index: 0xffff_ffff,
            script_sig: Bytes(push(&self.counter.to_le_bytes())),
            sequence: 0xffff_ffff,
            witness: vec![],
        }
    }
    fn spend_input(p: &(Vec<u8>, u32), rng: &mut Rng) -> InDesc {
        InDesc {
            prev_txid: Bytes(p.0.clone()),
            prev_index: p.1,
            script_sig: Bytes(rng.bytes_range(0, 8)),
            sequence: 0xffff_fffe,
            witness: vec![],
        }
    }
}

/// output script kinds; `keys` is the shared key pool (address reuse)
fn out_script(coin: &str, keys: &[Vec<u8>], rng: &mut Rng, addressless_ok: bool) -> Vec<u8> {
    let btc = coin == "bitcoin" || coin == "testnet3";
    let key = rng.pick(keys).clone();
    let mut h = hash160_(&key);
    // a tenth of the hash-carrying outputs pay to hashes that are tiny integers or share all but their last
    // byte (addresses with a long common prefix, like the well-known burn addresses)
    if rng.chance(1, 10) {
        let mut z = [0u8; 20];
        if rng.coin() {
            z[19] = rng.below(4) as u8;
        } else {
            z.copy_from_slice(&hash160_(&keys[0]));
            z[19] = rng.below(4) as u8;
        }
        h = z;
    }
    let k = rng.below(if addressless_ok { 10 } else { 4 });
    match k {
        0 | 1 => p2pkh(&h),
        2 => p2pk(&key),
        3 => {
            if btc && rng.coin() {
                witness_prog(0, &h)
            } else {
                p2sh(&h)
            }
        }
        4 => p2pkh(&h),
        5 => p2pk(&key),
        6 => op_return(b"note"),
        7 => multisig(2, &[keys[0].clone(), key.clone(), keys[keys.len() - 1].clone()], 3),
        8 => vec![0x51], // non-standard: OP_1
        _ => vec![0x76, 0xa9, 0x88, 0xac], // non-standard: template without a hash
    }
}

fn key_pool(n: usize, rng: &mut Rng) -> Vec<Vec<u8>> {
    (0..n)
        .map(|_| {
            let c = rng.coin();
            fake_pubkey(rng, c)
        })
        .collect()
}

fn create_tx(hist: &mut Hist, coin: &str, keys: &[Vec<u8>], n_out: usize, rng: &mut Rng, inputs: Vec<InDesc>, addressless: bool) -> TxDesc {
    let mut ins = inputs;
    if ins.is_empty() {
        ins.push(hist.funding_input());
    }
    let outputs = (0..n_out)
        .map(|_| OutDesc {
            // a small palette half of the time: equal values on one address, zero values
            value: match rng.below(40) {
                // beyond Bitcoin's 21M-coin cap (other coins have none, and the dumps promise exact sums):
                // at most 16 per history, so an address total stays far below 2^64
                39 if n_out <= 16 && hist.big_values < 16 => {
                    hist.big_values += 1;
                    *rng.pick(&[2_100_000_000_000_000u64, 2_100_000_000_000_001, 10_000_000_000_000_000, 1 << 56])
                }
                _ => 0,
            }
            .max(match rng.below(16) {
                0 | 1 => 0,
                2..=8 => *rng.pick(&[1u64, 100, 5_000_000_000, 2_500_000_000]),
                _ => rng.range(1, 5_000_000_000),
            }),
            script: Bytes(out_script(coin, keys, rng, addressless)),
        })
        .collect();
    TxDesc {
        version: 1,
        segwit: false,
        inputs: ins,
        outputs,
        locktime: 0,
        cs_width: 0,
    }
}

fn finish(prop: &str, family: &str, coin: &str, hist: Hist, rng: &mut Rng) -> Scenario {
    let mut scn = new_scenario(prop, family, coin);
    for (i, txs) in hist.blocks.into_iter().enumerate() {
        let mut txs = txs;
        if txs.is_empty() {
            // a block needs at least one tx: neutral coinbase paying nobody
            txs.push(TxDesc {
                version: 1,
                segwit: false,
                inputs: vec![coinbase_input(i as u64 + 1_000_000, rng)],
                outputs: vec![OutDesc {
                    value: 0,
                    script: Bytes(op_return(b"empty")),
                }],
                locktime: 0,
                cs_width: 0,
            });
        }
        scn.chain.push(BlockDesc {
            version: 1,
            prev: None,
            merkle: None,
            time: 1_500_000_000 + i as u32 * 600,
            bits: 0x1d00ffff,
            nonce: i as u32,
            auxpow: None,
            txs,
        });
    }
    let n = scn.chain.len();
    scn.layouts = vec![if rng.coin() { single_file_layout(n) } else { random_layout(n, 3, false, rng) }];
    scn.index = index_opts(rng);
    scn
}

/// small enumerated history: ops with block boundaries
fn enumerated(prop: &str, coin: &str, ops: &[Op], boundaries: u32, rng: &mut Rng) -> Scenario {
    let keys = key_pool(2, rng);
    let mut hist = Hist::new();
    for (k, op) in ops.iter().enumerate() {
        if k > 0 && (boundaries >> (k - 1)) & 1 == 1 {
            hist.new_block();
        }
        match op {
            Op::Create1 | Op::Create2 => {
                let n = if *op == Op::Create1 { 1 } else { 2 };
                let tx = create_tx(&mut hist, coin, &keys, n, rng, vec![], false);
                hist.add(tx, true, coin);
            }
            Op::SpendFirst | Op::SpendLast => {
                let p = if *op == Op::SpendFirst { hist.live.first().cloned() } else { hist.live.last().cloned() };
                let inputs = match p {
                    Some(p) => vec![Hist::spend_input(&p, rng)],
                    None => vec![Hist::spend_input(&(rng.bytes(32), 0), rng)],
                };
                let tx = create_tx(&mut hist, coin, &keys, 1, rng, inputs, true);
                hist.add(tx, true, coin);
            }
            Op::SpendUnknown => {
                let inputs = vec![Hist::spend_input(&(rng.bytes(32), rng.below(3) as u32), rng)];
                let tx = create_tx(&mut hist, coin, &keys, 1, rng, inputs, false);
                hist.add(tx, true, coin);
            }
            Op::RepeatFirst => {
                if let Some(t) = hist.all_txs.first().cloned() {
                    hist.add(t, true, coin);
                } else {
                    let tx = create_tx(&mut hist, coin, &keys, 1, rng, vec![], false);
                    hist.add(tx, true, coin);
                }
            }
        }
    }
    finish(prop, "enumerated", coin, hist, rng)
}

fn random_history(prop: &str, coin: &str, n_tx: usize, reuse: bool, rng: &mut Rng) -> Scenario {
    let keys = key_pool(if reuse { rng.usize(2, 4) } else { rng.usize(3, 12) }, rng);
    let mut hist = Hist::new();
    for _ in 0..n_tx {
        if rng.chance(1, 3) {
            hist.new_block();
        }
        match rng.below(12) {
            0..=3 => {
                let n = rng.usize(1, 4);
                let tx = create_tx(&mut hist, coin, &keys, n, rng, vec![], true);
                hist.add(tx, true, coin);
            }
            4..=7 => {
                // spend 1..5 live outpoints (fan-in), fan-out 1..3; may spend outputs created in this very block
                let k = rng.usize(1, 5).min(hist.live.len());
                let mut ins = vec![];
                for _ in 0..k {
                    let j = rng.usize(0, hist.live.len() - 1);
                    let p = hist.live[j].clone();
                    ins.push(Hist::spend_input(&p, rng));
                    if rng.chance(9, 10) {
                        hist.live.remove(j); // else: the same outpoint may be referenced twice (double removal)
                    }
                    if hist.live.is_empty() {
                        break;
                    }
                }
                // a null outpoint (what a coinbase references) among the inputs of an ordinary spend
                if rng.chance(1, 6) {
                    let at = if rng.coin() { 0 } else { rng.usize(0, ins.len()) };
                    let f = hist.funding_input();
                    ins.insert(at, f);
                }
                // everything burnt as fee: a spend without any output
                let n = if rng.chance(1, 6) { 0 } else { rng.usize(1, 3) };
                let tx = create_tx(&mut hist, coin, &keys, n, rng, ins, true);
                hist.add(tx, true, coin);
            }
            8 => {
                // several inputs spending several outputs of one earlier tx
                if let Some((t, _)) = hist.live.first().cloned() {
                    let same: Vec<(Vec<u8>, u32)> = hist.live.iter().filter(|(x, _)| *x == t).cloned().collect();
                    let ins = same.iter().map(|p| Hist::spend_input(p, rng)).collect();
                    let tx = create_tx(&mut hist, coin, &keys, 1, rng, ins, true);
                    hist.add(tx, true, coin);
                }
            }
            9 if !hist.live.is_empty() && rng.coin() => {
                // a foreign outpoint that is *almost* a live one: one byte changed, two bytes changed by the same
                // delta at a distance of 4/8/16 (they cancel in word-wise XOR folds), two bytes swapped, halves
                // swapped, or the right txid with another index
                let (t, idx) = rng.pick(&hist.live).clone();
                let mut x = t.clone();
                let mut xi = idx;
                match rng.below(5) {
                    0 => {
                        let i = rng.usize(0, 31);
                        x[i] ^= 1 << rng.below(8);
                    }
                    1 => {
                        let d = *rng.pick(&[4usize, 8, 16]);
                        let i = rng.usize(0, 31 - d);
                        let delta = rng.range(1, 255) as u8;
                        x[i] ^= delta;
                        x[i + d] ^= delta;
                    }
                    2 => {
                        let (i, j) = (rng.usize(0, 31), rng.usize(0, 31));
                        x.swap(i, j);
                    }
                    3 => x.rotate_left(16),
                    _ => xi = idx.wrapping_add(*rng.pick(&[1u32, 256, 65_536, 1 << 24])),
                }
                if !(x == t && xi == idx) && !hist.live.iter().any(|(a, b)| *a == x && *b == xi) {
                    let ins = vec![Hist::spend_input(&(x, xi), rng)];
                    let tx = create_tx(&mut hist, coin, &keys, 1, rng, ins, true);
                    hist.add(tx, true, coin);
                }
            }
            9 => {
                let ins = vec![Hist::spend_input(&(rng.bytes(32), rng.below(300) as u32), rng)];
                let tx = create_tx(&mut hist, coin, &keys, 1, rng, ins, true);
                hist.add(tx, true, coin);
            }
            10 if rng.chance(1, 3) => {
                // two DIFFERENT transactions whose txids share their first (or last) 8 bytes, both paying
                // output 0 to the same address: distinct outpoints for the program, one entry for any map key
                // built from a truncated txid
                let (a, b) = if rng.coin() { crate::collide::HEAD_PAIR } else { crate::collide::TAIL_PAIR };
                for n in [a, b] {
                    let tx = crate::collide::collision_tx(n);
                    if !hist.all_txs.contains(&tx) {
                        hist.add(tx, true, coin);
                        if rng.coin() {
                            hist.new_block();
                        }
                    }
                }
            }
            10 => {
                // byte-identical transaction re-included (same txid → replacement)
                if !hist.all_txs.is_empty() {
                    let t = rng.pick(&hist.all_txs).clone();
                    hist.add(t, true, coin);
                }
            }
            _ => {
                // many outputs: indices past 255 (and, rarely, past 65535), some spent later
                if rng.chance(1, 70) && hist.all_txs.len() < 30 {
                    let n = rng.usize(65_537, 65_560);
                    let tx = create_tx(&mut hist, coin, &keys, n, rng, vec![], false);
                    hist.add(tx, true, coin);
                    // spend one of the outputs past 65535 and one just below right away or later
                    if let Some(p) = hist.live.iter().rev().find(|p| p.1 >= 65_536).cloned() {
                        let ins = vec![Hist::spend_input(&p, rng)];
                        let tx = create_tx(&mut hist, coin, &keys, 1, rng, ins, false);
                        hist.add(tx, true, coin);
                    }
                } else if rng.chance(1, 8) && hist.all_txs.len() < 60 {
                    // a thousand and more outputs over a handful of keys: runs of identical scripts with
                    // different values
                    let n = *rng.pick(&[1023usize, 1024, 1025, 1100, 2048, 4097]);
                    let tx = create_tx(&mut hist, coin, &keys, n, rng, vec![], false);
                    hist.add(tx, true, coin);
                } else if rng.chance(1, 4) {
                    let n = rng.usize(257, 320);
                    let tx = create_tx(&mut hist, coin, &keys, n, rng, vec![], true);
                    hist.add(tx, true, coin);
                } else {
                    let tx = create_tx(&mut hist, coin, &keys, 2, rng, vec![], true);
                    hist.add(tx, true, coin);
                }
            }
        }
    }
    finish(prop, "random", coin, hist, rng)
}

/// outputs created early, a long stretch of unrelated blocks, spends (and survivors) at the end
fn long_gap_history(prop: &str, coin: &str, rng: &mut Rng) -> Scenario {
    let keys = key_pool(4, rng);
    let mut hist = Hist::new();
    for _ in 0..rng.usize(2, 6) {
        let n = rng.usize(1, 3);
        let tx = create_tx(&mut hist, coin, &keys, n, rng, vec![], false);
        hist.add(tx, true, coin);
        if rng.coin() {
            hist.new_block();
        }
    }
    let gap = *rng.pick(&[101usize, 145, 513, 1009, 2017]);
    for _ in 0..gap {
        hist.new_block(); // finish() fills empty blocks with a neutral coinbase
    }
    let early: Vec<(Vec<u8>, u32)> = hist.live.clone();
    for p in early.iter().take(early.len() / 2 + 1) {
        let ins = vec![Hist::spend_input(p, rng)];
        let tx = create_tx(&mut hist, coin, &keys, 1, rng, ins, false);
        hist.add(tx, true, coin);
    }
    let mut scn = finish(prop, "long-gap", coin, hist, rng);
    scn.layouts = vec![single_file_layout(scn.chain.len())];
    scn
}

fn prefix_runs(scn: &mut Scenario, cb: &[&str], rng: &mut Rng, all_prefixes: bool) {
    let t = scn.chain.len() as u64 - 1;
    let mut ends: Vec<Option<u64>> = vec![None];
    if all_prefixes {
        for e in 1..t {
            ends.push(Some(e));
        }
    } else {
        for _ in 0..3 {
            if t >= 2 {
                ends.push(Some(rng.range(1, t - 1)));
            }
        }
    }
    ends.dedup();
    for e in ends {
        for c in cb {
            let mut r = RunSpec::new(c);
            r.end = e;
            r.threads = *rng.pick(&[1usize, 2, 8]);
            r.plan.writer_cap = Some(*rng.pick(&[1usize, 16, 100, 4096, 4_000_000]));
            if rng.chance(1, 3) {
                r.plan.wshort = random_chunks(rng);
            }
            let n_out: usize = scn.chain.iter().flat_map(|b| b.txs.iter()).map(|t| t.outputs.len()).sum();
            fit_writes(&mut r.plan, n_out as u64 * 130, 20_000);
            scn.runs.push(r);
        }
    }
    // a range starting inside the history
    if t >= 1 && rng.coin() {
        let s = rng.range(1, t);
        // the result of the adjacent earlier range 0..s-1 is already in the folder (a nightly
        // `--start <last end + 1>` routine): a dump lists the outputs of *its* range only
        if rng.coin() && !scn.layouts.is_empty() {
            let m = Model::new(scn);
            let u = m.unspent_rows(0, s - 1).0;
            let b = m.balance_rows(0, s - 1).0;
            let mut ub = b"txid;indexOut;height;value;address\n".to_vec();
            for r in &u {
                ub.extend_from_slice(r.as_bytes());
                ub.push(b'\n');
            }
            let mut bb = b"address;balance\n".to_vec();
            for r in &b {
                bb.extend_from_slice(r.as_bytes());
                bb.push(b'\n');
            }
            scn.dump_pre.retain(|p| !p.name.starts_with("unspent-0-") && !p.name.starts_with("balances-0-"));
            scn.dump_pre.push(PreFile { name: format!("unspent-0-{}.csv", s - 1), bytes: Bytes(ub) });
            scn.dump_pre.push(PreFile { name: format!("balances-0-{}.csv", s - 1), bytes: Bytes(bb) });
            scn.params = serde_json::json!({ "adjacent_earlier_result": s - 1 });
        }
        for c in cb {
            let mut r = RunSpec::new(c);
            r.start = Some(s);
            if s < t && rng.coin() {
                r.end = Some(rng.range(s + 1, t + 1));
            }
            r.threads = 2;
            scn.runs.push(r);
        }
    }
}

fn probes(scn: &Scenario, m: &Model, st: &mut Stats) {
    let mut created: BTreeMap<Vec<u8>, usize> = BTreeMap::new();
    let mut seen_txids: BTreeMap<Vec<u8>, usize> = BTreeMap::new();
    for (bi, b) in scn.chain.iter().enumerate() {
        for (ti, t) in b.txs.iter().enumerate() {
            let id = m.built.active[bi].txs[ti].txid.to_vec();
            for (ii, i) in t.inputs.iter().enumerate() {
                if t.outputs.is_empty() && created.contains_key(&i.prev_txid.0) {
                    st.probe("known_output_spent_by_tx_without_outputs");
                }
                if created.contains_key(&i.prev_txid.0) && t.inputs[..ii].iter().any(|p| p.prev_index == 0xffff_ffff && p.prev_txid.0.iter().all(|b| *b == 0)) {
                    st.probe("known_output_spent_after_null_outpoint_in_same_tx");
                }
                if created.get(&i.prev_txid.0) == Some(&bi) {
                    st.probe("spend_in_creating_block");
                }
                if i.prev_index >= 256 && created.contains_key(&i.prev_txid.0) {
                    st.probe("spent_index_past_255");
                }
                if !created.contains_key(&i.prev_txid.0) && i.prev_index != 0xffff_ffff {
                    st.probe("spend_unknown_outpoint");
                }
            }
            if t.outputs.len() > 256 {
                st.probe("tx_with_over_256_outputs");
            }
            if t.outputs.len() >= 1024 && t.outputs.windows(2).any(|w| w[0].script == w[1].script && w[0].value != w[1].value) {
                st.probe("wide_tx_with_adjacent_equal_scripts");
            }
            if t.outputs.len() > 65_536 {
                st.probe("tx_with_over_65536_outputs");
            }
            if seen_txids.contains_key(&id) {
                st.probe("duplicate_txid");
            }
            if seen_txids.keys().any(|k| *k != id && (k[..8] == id[..8] || k[24..] == id[24..])) {
                st.probe("txids_sharing_8_bytes");
            }
            seen_txids.insert(id.clone(), bi);
            created.insert(id, bi);
            for o in &t.outputs {
                if o.value == 0 {
                    st.probe("zero_value_output");
                }
                if o.value > 2_100_000_000_000_000 {
                    st.probe("output_above_21m_coins");
                }
            }
        }
    }
}

impl Prop for C07 {
    fn id(&self) -> &'static str {
        "C07"
    }
    fn rule(&self) -> String {
        "spend histories over a small key pool: (a) every history of <=3 (thorough <=4) operations over {create-1, create-2, spend-first, spend-last, spend-unknown, repeat-first} x every placement of block boundaries, enumerated; (b) random histories of 5..200 transactions (fan-in/out, spend inside creating block, several inputs on one tx's outputs, unknown outpoints, double references, byte-identical tx re-included, spends by transactions without outputs, null outpoints among the inputs of ordinary spends, >256 outputs, address-less and zero-value outputs) x 8 coins. The real program is run with -e h for every prefix h of small histories (3 sampled prefixes of long ones) plus a range starting mid-history, writer capacity 1B..4MB; the row set of unspent-S-E.csv must equal the reference UTXO machine stepped to the same height (header exact, no duplicates). Non-trivial = at least one spend and one surviving output; distinct by scenario hash.".into()
    }
    fn exhaustive_note(&self) -> Option<String> {
        Some("histories of <=3 operations (quick) / <=4 (thorough) over 6 operation kinds x all block-boundary placements are enumerated completely; longer histories are sampled".into())
    }
    fn items(&self, tier: Tier) -> u64 {
        let small = if tier == Tier::Quick { 6 + 36 * 2 + 216 * 4 } else { 6 + 72 + 864 + 1296 * 8 };
        small + if tier == Tier::Quick { 700 } else { 8000 }
    }
    fn required_probes(&self, _tier: Tier) -> Vec<&'static str> {
        vec!["spend_in_creating_block", "duplicate_txid", "spend_unknown_outpoint", "tx_with_over_256_outputs", "spent_index_past_255", "zero_value_output", "txids_sharing_8_bytes", "known_output_spent_by_tx_without_outputs", "known_output_spent_after_null_outpoint_in_same_tx", "output_above_21m_coins", "wide_tx_with_adjacent_equal_scripts", "result_of_adjacent_earlier_range_in_folder"]
    }
    fn explore(&self, item: u64, rng: &mut Rng, tier: Tier, h: &mut Harness) -> Result<(), String> {
        let maxk = if tier == Tier::Quick { 3 } else { 4 };
        if let Some((ops, bounds)) = decode_small(item, maxk) {
            let coin = COINS[(item % 8) as usize];
            let mut scn = enumerated("C07", coin, &ops, bounds, rng);
            prefix_runs(&mut scn, &["unspentcsvdump"], rng, true);
            h.check(&mut scn)?;
            return Ok(());
        }
        let coin = *rng.pick(&COINS);
        if rng.chance(1, 12) {
            let mut scn = long_gap_history("C07", coin, rng);
            let mut r = RunSpec::new("unspentcsvdump");
            r.threads = 2;
            scn.runs = vec![r];
            h.stats.probe("long_gap_between_create_and_spend");
            h.check(&mut scn)?;
            return Ok(());
        }
        let n = if rng.chance(1, 5) { rng.usize(60, 200) } else { rng.usize(5, 40) };
        let mut scn = random_history("C07", coin, n, false, rng);
        let small = scn.chain.len() <= 8;
        prefix_runs(&mut scn, &["unspentcsvdump"], rng, small);
        super::dress(&mut scn, rng, true);
        h.check(&mut scn)?;
        Ok(())
    }
    fn nontrivial(&self, scn: &Scenario, outs: &[RunOutcome]) -> bool {
        let spends = scn.chain.iter().flat_map(|b| b.txs.iter()).flat_map(|t| t.inputs.iter()).any(|i| i.prev_index != 0xffff_ffff);
        spends && outs.iter().any(|o| o.exit.ok() && final_files(&o.dump, "unspent").iter().any(|f| f.3.iter().filter(|c| **c == b'\n').count() > 1))
    }
    fn judge(&self, scn: &Scenario, m: &Model, outs: &[RunOutcome], st: &mut Stats) -> Vec<Violation> {
        probes(scn, m, st);
        if scn.params.get("adjacent_earlier_result").is_some() && scn.runs.iter().any(|r| r.start.is_some()) {
            st.probe("result_of_adjacent_earlier_range_in_folder");
        }
        let mut v = Vec::new();
        for (r, o) in scn.runs.iter().zip(outs.iter()) {
            if !o.exit.ok() {
                v.push(viol("C07/run-failed", format!("exit {:?}: {}", o.exit, super::c01::tail(&o.stderr_str()))));
                continue;
            }
            v.extend(compare_with_model("C07", m, r, o, &CmpOpts { addr: true, decimals: false }, st));
        }
        v
    }
}

/// item → (ops, boundary bitmask) for histories of 1..=maxk ops; None past the enumerated block
fn decode_small(item: u64, maxk: usize) -> Option<(Vec<Op>, u32)> {
    let mut base = 0u64;
    for k in 1..=maxk {
        let n_ops = 6u64.pow(k as u32);
        let n_b = 1u64 << (k - 1);
        let total = n_ops * n_b;
        if item < base + total {
            let x = item - base;
            let (mut o, b) = (x / n_b, (x % n_b) as u32);
            let mut ops = Vec::new();
            for _ in 0..k {
                ops.push(OPS[(o % 6) as usize]);
                o /= 6;
            }
            return Some((ops, b));
        }
        base += total;
    }
    None
}

fn aggregate_unspent(o: &RunOutcome) -> Option<((u64, u64), Vec<String>)> {
    let f = final_files(&o.dump, "unspent");
    if f.len() != 1 {
        return None;
    }
    let mut bal: BTreeMap<String, u128> = BTreeMap::new();
    for l in String::from_utf8_lossy(f[0].3).lines().skip(1) {
        let c: Vec<&str> = l.split(';').collect();
        if c.len() != 5 {
            return None;
        }
        *bal.entry(c[4].to_string()).or_insert(0) += c[3].parse::<u128>().ok()?;
    }
    Some(((f[0].0, f[0].1), bal.iter().map(|(a, b)| format!("{};{}", a, b)).collect()))
}

impl Prop for C08 {
    fn id(&self) -> &'static str {
        "C08"
    }
    fn rule(&self) -> String {
        "C07's history generators with address reuse turned up (2..4 keys; the same key paid as P2PK and P2PKH; addresses emptied and re-funded), enumerated small histories + random histories x 8 coins x prefixes/ranges. Each scenario runs unspentcsvdump and balances with the same options: balances row set must equal the reference group-by-sum, and must equal the aggregation of the program's own unspent dump. Non-trivial = some address owns >=2 unspent outputs or was emptied; distinct by scenario hash.".into()
    }
    fn exhaustive_note(&self) -> Option<String> {
        Some("histories of <=3 operations over 6 kinds x block-boundary placements enumerated; longer ones sampled".into())
    }
    fn items(&self, tier: Tier) -> u64 {
        (6 + 72 + 864) + if tier == Tier::Quick { 500 } else { 8000 }
    }
    fn required_probes(&self, _tier: Tier) -> Vec<&'static str> {
        vec!["address_with_multiple_utxos", "address_emptied", "p2pk_and_p2pkh_same_address", "two_million_unspent_outputs_alive"]
    }
    fn explore(&self, item: u64, rng: &mut Rng, _tier: Tier, h: &mut Harness) -> Result<(), String> {
        if let Some((ops, bounds)) = decode_small(item, 3) {
            let coin = COINS[(item % 8) as usize];
            let mut scn = enumerated("C08", coin, &ops, bounds, rng);
            prefix_runs(&mut scn, &["unspentcsvdump", "balances"], rng, true);
            h.check(&mut scn)?;
            return Ok(());
        }
        let coin = *rng.pick(&COINS);
        if item == (6 + 72 + 864) + 7 {
            // about two million unspent outputs alive at once (hash tables sized for "a million" have grown by
            // then), among them zero-value outputs that are the only output of their address
            let mut scn = new_scenario("C08", "huge-utxo", coin);
            let pool: Vec<Vec<u8>> = (0..50).map(|_| p2pkh(&rng.bytes(20))).collect();
            for b in 0..30u32 {
                let mut outputs: Vec<OutDesc> = Vec::with_capacity(65_000);
                for k in 0..65_000u32 {
                    if b == 0 && k < 200 {
                        outputs.push(OutDesc { value: 0, script: Bytes(p2pkh(&rng.bytes(20))) });
                    } else {
                        outputs.push(OutDesc { value: 1 + (rng.next() % 1_000_000), script: Bytes(pool[(rng.next() % 50) as usize].clone()) });
                    }
                }
                scn.chain.push(BlockDesc {
                    version: 1,
                    prev: None,
                    merkle: None,
                    time: 1_500_000_000 + b * 600,
                    bits: 0x1d00ffff,
                    nonce: b,
                    auxpow: None,
                    txs: vec![TxDesc {
                        version: 1,
                        segwit: false,
                        inputs: vec![coinbase_input(b as u64, rng)],
                        outputs,
                        locktime: 0,
                        cs_width: 0,
                    }],
                });
            }
            scn.layouts = vec![single_file_layout(30)];
            scn.index = index_opts(rng);
            for cb in ["unspentcsvdump", "balances"] {
                let mut r = RunSpec::new(cb);
                r.threads = 4;
                scn.runs.push(r);
            }
            h.stats.probe("two_million_unspent_outputs_alive");
            h.check(&mut scn)?;
            return Ok(());
        }
        if rng.chance(1, 12) {
            let mut scn = long_gap_history("C08", coin, rng);
            for cb in ["unspentcsvdump", "balances"] {
                let mut r = RunSpec::new(cb);
                r.threads = 2;
                scn.runs.push(r);
            }
            h.check(&mut scn)?;
            return Ok(());
        }
        let n = if rng.chance(1, 5) { rng.usize(60, 200) } else { rng.usize(5, 40) };
        let mut scn = random_history("C08", coin, n, true, rng);
        let small = scn.chain.len() <= 6;
        prefix_runs(&mut scn, &["unspentcsvdump", "balances"], rng, small);
        super::dress(&mut scn, rng, true);
        h.check(&mut scn)?;
        Ok(())
    }
    fn nontrivial(&self, _scn: &Scenario, outs: &[RunOutcome]) -> bool {
        outs.iter().any(|o| o.exit.ok() && final_files(&o.dump, "balances").iter().any(|f| f.3.iter().filter(|c| **c == b'\n').count() > 1))
    }
    fn judge(&self, scn: &Scenario, m: &Model, outs: &[RunOutcome], st: &mut Stats) -> Vec<Violation> {
        let mut v = Vec::new();
        let mut last_unspent: Option<(&RunSpec, &RunOutcome)> = None;
        for (r, o) in scn.runs.iter().zip(outs.iter()) {
            if !o.exit.ok() {
                v.push(viol("C08/run-failed", format!("{} exit {:?}: {}", r.callback, o.exit, super::c01::tail(&o.stderr_str()))));
                continue;
            }
            if r.callback == "unspentcsvdump" {
                last_unspent = Some((r, o));
                continue;
            }
            // probes from the model
            if let Some((s, e)) = range_of_files(o, "balances") {
                let u = m.utxo(s, e);
                let mut per: BTreeMap<&str, u32> = BTreeMap::new();
                for x in u.map.values() {
                    *per.entry(&x.address).or_insert(0) += 1;
                }
                if per.values().any(|c| *c >= 2) {
                    st.probe("address_with_multiple_utxos");
                }
                let full = m.utxo(s, m.tip().max(e));
                let _ = full;
                // an address that received something in range but owns nothing now
                let mut received: std::collections::BTreeSet<String> = Default::default();
                let mut kinds: BTreeMap<String, std::collections::BTreeSet<u8>> = BTreeMap::new();
                for bi in m.idx_range(s, e) {
                    for (ti, t) in scn.chain[bi].txs.iter().enumerate() {
                        for (oi, out) in t.outputs.iter().enumerate() {
                            if let crate::scriptref::AddrV::Some(a) = &m.verdict(bi, ti, oi).addr {
                                received.insert(a.clone());
                                kinds.entry(a.clone()).or_default().insert(out.script.0.first().copied().unwrap_or(0));
                            }
                        }
                    }
                }
                if received.iter().any(|a| !per.contains_key(a.as_str())) {
                    st.probe("address_emptied");
                }
                if kinds.values().any(|k| k.contains(&0x76) && (k.contains(&33) || k.contains(&65))) {
                    st.probe("p2pk_and_p2pkh_same_address");
                }
            }
            v.extend(compare_with_model("C08", m, r, o, &CmpOpts { addr: true, decimals: false }, st));
            // relation to the program's own unspent dump of the same range
            if let Some((ur, uo)) = last_unspent {
                if ur.start == r.start && ur.end == r.end {
                    if let (Some((rng_u, rows)), Some(rng_b)) = (aggregate_unspent(uo), range_of_files(o, "balances")) {
                        if rng_u == rng_b {
                            if let Err(x) = compare_rowset("C08/vs-own-unspent", "balances", "address;balance", &rows, o) {
                                v.push(x);
                            }
                        }
                    }
                }
            }
        }
        v
    }
}
