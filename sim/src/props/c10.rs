//! C10 — exit 0 ⇒ complete final-named output; any failure ⇒ none; never partial.
use crate::check::*;
use crate::desc::*;
use crate::exec::*;
use crate::gen::*;
use crate::obs::*;
use crate::oracle::*;
use crate::render::Model;
use crate::util::*;
use serde_json::json;

pub struct C10;

const SLICES: u64 = 8;
const CBS: [&str; 3] = ["csvdump", "unspentcsvdump", "balances"];

fn multi_file_layout(n: usize, rng: &mut Rng) -> Layout {
    let nf = rng.usize(2, 3).min(n);
    let mut files: Vec<BlkFileDesc> = (0..nf)
        .map(|k| BlkFileDesc {
            number: k as u64,
            width: 5,
            segs: vec![],
            symlink: false,
        })
        .collect();
    let mut order: Vec<usize> = (0..n).collect();
    if rng.coin() {
        rng.shuffle(&mut order);
    }
    for (k, i) in order.iter().enumerate() {
        // guarantee every file gets a block, then random
        let f = if k < nf { k } else { rng.usize(0, nf - 1) };
        if rng.chance(1, 5) {
            files[f].segs.push(Seg::Zero { n: rng.range(1, 100) });
        }
        files[f].segs.push(Seg::Active { i: *i });
    }
    Layout {
        files,
        xor_key: if rng.chance(1, 4) { Some(Bytes(rng.bytes(8))) } else { None },
        magic_mode: 0,
        xor_symlink: false,
        link_chain: false,
        side_xor: None,
        extra_files: vec![],
    }
}

enum Expect {
    Bytes(Vec<u8>),
    Rows(String, Vec<String>),
}
impl Expect {
    fn size(&self) -> u64 {
        match self {
            Expect::Bytes(b) => b.len() as u64,
            Expect::Rows(h, r) => (h.len() + 1 + r.iter().map(|x| x.len() + 1).sum::<usize>()) as u64,
        }
    }
    fn matches(&self, got: &[u8]) -> bool {
        match self {
            Expect::Bytes(b) => b.as_slice() == got,
            Expect::Rows(h, rows) => {
                let t = String::from_utf8_lossy(got);
                if !t.ends_with('\n') {
                    return false;
                }
                let mut l: Vec<&str> = t.lines().collect();
                if l.first().copied() != Some(h.as_str()) {
                    return false;
                }
                l.remove(0);
                l.sort();
                let mut e: Vec<&str> = rows.iter().map(|s| s.as_str()).collect();
                e.sort();
                l == e
            }
        }
    }
}

/// complete content of the final file `stem-s-e.csv` per the model
fn expected_file(m: &Model, stem: &str, s: u64, e: u64) -> Option<Expect> {
    Some(match stem {
        "blocks" => Expect::Bytes(m.csv(s, e).blocks),
        "transactions" => Expect::Bytes(m.csv(s, e).transactions),
        "tx_in" => Expect::Bytes(m.csv(s, e).tx_in),
        "tx_out" => Expect::Bytes(m.csv(s, e).tx_out),
        "unspent" => Expect::Rows("txid;indexOut;height;value;address".into(), m.unspent_rows(s, e).0),
        "balances" => Expect::Rows("address;balance".into(), m.balance_rows(s, e).0),
        _ => return None,
    })
}

fn parse_final(name: &str) -> Option<(String, u64, u64)> {
    let mid = name.strip_suffix(".csv")?;
    let mut it = mid.rsplitn(3, '-');
    let e = it.next()?.parse().ok()?;
    let s = it.next()?.parse().ok()?;
    let stem = it.next()?.to_string();
    Some((stem, s, e))
}

/// lowest height of the processed range whose stored bytes are no longer completely present
fn failing_height(scn: &Scenario, m: &Model, r: &RunSpec, info: &crate::world::WorldInfo) -> Option<u64> {
    let s = r.start.unwrap_or(0);
    let e = r.end.map(|e| e.min(m.tip())).unwrap_or(m.tip());
    let mut worst: Option<u64> = None;
    let mut hit = |h: u64| {
        if h >= s && h <= e {
            worst = Some(worst.map(|w: u64| w.min(h)).unwrap_or(h));
        }
    };
    let place = |h: u64| -> Option<&crate::world::Placement> { info.active.get((h - scn.base_height) as usize).and_then(|p| p.as_ref()) };
    for f in &r.disk_faults {
        match f {
            DiskFault::RemoveFile { height } | DiskFault::EmptyFile { height } => {
                if let Some(p) = place(*height) {
                    for (i, q) in info.active.iter().enumerate() {
                        if let Some(q) = q {
                            if q.file == p.file {
                                hit(scn.base_height + i as u64);
                            }
                        }
                    }
                }
            }
            DiskFault::Truncate { height, off } => {
                if let Some(p) = place(*height) {
                    let at = p.pos - 4 + off;
                    for (i, q) in info.active.iter().enumerate() {
                        if let Some(q) = q {
                            if q.file == p.file && q.pos + q.len > at {
                                hit(scn.base_height + i as u64);
                            }
                        }
                    }
                }
            }
            DiskFault::PosPastEof { height } => hit(*height),
            _ => {}
        }
    }
    worst
}

impl C10 {
    fn base_world(&self, item: u64, rng: &mut Rng) -> Scenario {
        let coin = COINS[(item % 8) as usize];
        let mut scn = new_scenario("C10", "benign", coin);
        let nb = rng.usize(3, 12);
        let sh = TxShape {
            max_in: 2,
            max_out: 3,
            boundary: false,
            big: false,
            segwit_ok: true,
            random_scripts: false,
            edge_values: false,
        };
        for i in 0..nb {
            let n_tx = rng.usize(1, 3);
            let mut b = rich_block(coin, i as u64, n_tx, rng, &sh, false);
            b.auxpow = None;
            b.version = 1;
            scn.chain.push(b);
        }
        scn.layouts = vec![multi_file_layout(nb, rng)];
        scn.index = index_opts(rng);
        scn
    }
}

impl Prop for C10 {
    fn id(&self) -> &'static str {
        "C10"
    }
    fn level(&self) -> &'static str {
        "fault_enumeration"
    }
    fn rule(&self) -> String {
        "per sampled world (3..12 blocks over 2..3 blk files, optional XOR) x the three file-producing callbacks x writer capacity in {1,7,64,4096,4000000}: (1) every height x {file removed, emptied, truncated at 6 positions of the block, index offset past EOF} and EIO on every blk read event; (2) every per-file size limit L from 0 to the largest output size (small outputs) or at every write boundary +-1 (large), and ENOSPC after {0,half,n-1} bytes / EIO at every write event (up to 120 events per run, sampled beyond); (3) process abort before every I/O event and inside every write; (3b) SIGTERM/SIGINT/SIGHUP raised by the process on itself before every I/O event (sampled when the trace is long); (4) failure of every rename; (5) the benign baseline, and the empty range (--start above the tip: exit 0 must still mean one complete row-less final file per output and no *.tmp); (5b) an unreadable block crossed with a size limit in one run (height required whenever the trace shows the block was reached before any write failed); (1b) the input-fault kinds on a single-file copy of the world; (6) on every run, the on-disk size of the source at each rename. Each fault is one simulated run with exactly one failing fault. Non-trivial = the planned fault actually fired (or baseline); distinct by scenario hash.".into()
    }
    fn exhaustive_note(&self) -> Option<String> {
        Some("per sampled world: all heights x input-fault kinds, all blk read events, all I/O event indices as crash points, all rename events, all size limits (small outputs) are enumerated; worlds themselves are sampled".into())
    }
    fn items(&self, tier: Tier) -> u64 {
        // worlds x 8 slices of each world's fault enumeration
        if tier == Tier::Quick {
            12 * SLICES
        } else {
            300 * SLICES
        }
    }
    fn required_probes(&self, _tier: Tier) -> Vec<&'static str> {
        vec!["enospc_on_final_flush", "enospc_midrun", "crash_between_renames", "crash_inside_write", "limit_zero", "stale_same_name_final_present", "start_above_tip", "input_fault_on_full_device", "input_fault_met_before_any_write_failure", "input_fault_in_single_file_directory", "catchable_signal_delivered", "signal_mid_range", "truncation_inside_a_block_over_128k", "record_without_block_data_in_range"]
    }
    fn explore(&self, item: u64, _rng: &mut Rng, _tier: Tier, h: &mut Harness) -> Result<(), String> {
        // every slice regenerates the same world and baseline, then runs its share of the enumeration
        let (item, slice) = (item / SLICES, item % SLICES);
        let mut world_rng = Rng::stream(h.seed, "C10-world", item);
        let rng = &mut world_rng;
        let counter = std::cell::Cell::new(0u64);
        let mine = || {
            let c = counter.get();
            counter.set(c + 1);
            c % SLICES == slice
        };
        let world = self.base_world(item, rng);
        let cb = CBS[(item % 3) as usize];
        let big_world = chain_bytes(&world.chain) > 100_000;
        // (a writer capacity of a few bytes on hundreds of KB of output means millions of write events per run)
        let cap = if big_world { *rng.pick(&[4096usize, 65_536, 4_000_000]) } else { *rng.pick(&[1usize, 7, 64, 4096, 4_000_000, 4_000_000]) };
        let mut base_run = RunSpec::new(cb);
        base_run.threads = *rng.pick(&[1usize, 2, 8]);
        base_run.plan.writer_cap = Some(cap);
        if rng.chance(1, 4) {
            base_run.plan.chunk_blk = random_chunks(rng);
        }
        let t = world.chain.len() as u64 - 1;
        if rng.chance(1, 4) {
            base_run.start = Some(rng.range(1, t.max(1)).min(t));
            if base_run.start == Some(t) && t > 0 {
                base_run.start = Some(t - 1);
            }
        }
        if rng.chance(1, 4) {
            let s = base_run.start.unwrap_or(0);
            base_run.end = Some(rng.range(s + 1, t + 1));
        }
        // baseline
        let mut scn = world.clone();
        scn.runs = vec![base_run.clone()];
        let (outs, bad) = h.check(&mut scn)?;
        if bad || !outs[0].exit.ok() {
            return Ok(()); // baseline itself violates: reported; enumeration would only repeat it
        }
        let base = &outs[0];
        let s = base_run.start.unwrap_or(0);
        let e = base_run.end.map(|x| x.min(t)).unwrap_or(t);
        // stale files: same final names with old content, other names, stale tmp longer than new content
        let mut pre = vec![
            PreFile {
                name: "unrelated.txt".into(),
                bytes: Bytes(b"keep me".to_vec()),
            },
            PreFile {
                name: "blocks-0-99999.csv".into(),
                bytes: Bytes(b"older result\n".to_vec()),
            },
        ];
        // what a failed or killed run of ANOTHER dump callback left in the same folder: its *.csv.tmp files
        for st in ["blocks", "transactions", "tx_in", "tx_out", "unspent", "balances"] {
            if !stems_of(cb).contains(&st) && rng.coin() {
                pre.push(PreFile {
                    name: format!("{}.csv.tmp", st),
                    bytes: Bytes(b"partial rows of a run that failed\n".repeat(rng.usize(1, 50))),
                });
            }
        }
        for st in stems_of(cb) {
            pre.push(PreFile {
                name: format!("{}-{}-{}.csv", st, s, e),
                bytes: Bytes(b"OLD CONTENT OF AN EARLIER RUN\n".to_vec()),
            });
            if rng.coin() {
                pre.push(PreFile {
                    name: format!("{}.csv.tmp", st),
                    bytes: Bytes(vec![b'x'; 100_000]),
                });
            }
        }
        let mk = |family: &str, f: &dyn Fn(&mut RunSpec)| -> Scenario {
            let mut c = world.clone();
            c.family = family.to_string();
            c.dump_pre = pre.clone();
            let mut r = base_run.clone();
            f(&mut r);
            c.runs = vec![r];
            c
        };
        // (5') baseline again with the stale files present
        if mine() {
            h.check(&mut mk("benign", &|_r| {}))?;
        }

        // (1) input faults
        for hh in s..=e {
            let bi = hh as usize;
            let blen = {
                let m = Model::new(&world);
                (m.built.active[bi].bytes.len() as u64, m.built.active[bi].txs[0].off as u64)
            };
            let (len, txoff) = blen;
            let mut faults = vec![DiskFault::RemoveFile { height: hh }, DiskFault::EmptyFile { height: hh }, DiskFault::PosPastEof { height: hh }];
            for off in [0u64, 4, 44, 4 + txoff, 4 + txoff + (len - txoff) / 2, 4 + len - 1] {
                faults.push(DiskFault::Truncate { height: hh, off });
            }
            for f in faults {
                if mine() {
                    h.check(&mut mk("input-fault", &|r| r.disk_faults = vec![f.clone()]))?;
                }
            }
        }
        // (1b) the same input faults when the directory holds a single blk file (a removed file then leaves none)
        {
            let nb = world.chain.len();
            let faults = vec![
                DiskFault::EmptyFile { height: s },
                DiskFault::RemoveFile { height: s },
                DiskFault::Truncate { height: e, off: 0 },
                DiskFault::Truncate { height: s, off: 4 },
                DiskFault::PosPastEof { height: e },
            ];
            for f in faults {
                if mine() {
                    let mut c = mk("input-fault", &|r| r.disk_faults = vec![f.clone()]);
                    c.layouts = vec![single_file_layout(nb)];
                    h.check(&mut c)?;
                }
            }
        }
        // (1d) a block of a few hundred KB (bulk-read paths, buffers larger than the file tail) cut short at
        // several places — only this fault kind is run on the big world, nothing else is enumerated on it
        if item % 2 == 0 {
            let hh = (s + e) / 2;
            let mut bigw = world.clone();
            let fill = rng.next() as u8;
            let blen = rng.usize(140_000, 400_000);
            bigw.chain[hh as usize].txs[0].inputs[0].script_sig = Bytes(vec![fill; blen]);
            for off in [5u64, 90, 200, blen as u64 / 2, blen as u64 - 7, blen as u64 + 20] {
                if mine() {
                    let mut c = mk("input-fault", &|r| {
                        r.disk_faults = vec![DiskFault::Truncate { height: hh, off }];
                        r.plan.chunk_blk = vec![];
                        r.plan.writer_cap = Some(4_000_000);
                    });
                    c.chain = bigw.chain.clone();
                    h.stats.probe("truncation_inside_a_block_over_128k");
                    h.check(&mut c)?;
                }
            }
        }
        // (1e) the record of a height inside the range carries no block data (a pruned block): there is nothing
        // to read for it — the run cannot succeed, and must not end quietly under a shorter range either
        for hh in [s, (s + e + 1) / 2, e] {
            if mine() {
                let mut c = mk("record-without-data", &|_r| {});
                c.index.pruned_at = vec![hh];
                h.check(&mut c)?;
            }
        }
        // (1c) a range that starts above the tip: nothing to process is not a failure, and the exit status
        // still has to tell the truth about the files
        for (k, with_end) in [(1u64, false), (2, true), (1000, false), (u64::MAX - t, false), ((1u64 << 63) - t, true)] {
            if mine() {
                h.check(&mut mk("empty-range", &|r| {
                    r.start = Some(t + k);
                    r.end = if with_end { Some(t + k + 3) } else { None };
                }))?;
            }
        }
        for ev in base.trace.iter().filter(|x| x.op == "read" && x.class == "blk") {
            if !mine() {
                continue;
            }
            h.check(&mut mk("read-eio", &|r| {
                r.plan.fails = vec![PointFail {
                    at: ev.seq,
                    errno: 5,
                    after: None,
                    once: false,
                }]
            }))?;
        }
        // (2) output faults
        let sizes: Vec<u64> = stems_of(cb).iter().filter_map(|st| final_files(&base.dump, st).first().map(|f| f.3.len() as u64)).collect();
        let maxsize = sizes.iter().copied().max().unwrap_or(0);
        let mut limits: Vec<u64> = Vec::new();
        if maxsize <= 2000 {
            limits.extend(0..=maxsize + 1);
            h.stats.probe("limits_enumerated_fully");
        } else {
            limits.push(0);
            limits.push(1);
            for sz in &sizes {
                limits.extend([sz.saturating_sub(1), *sz, sz + 1]);
            }
            // write boundaries of the baseline
            // write boundaries of the baseline — only where they are the same in every execution (csvdump);
            // unspent/balances rows come in hash order, there random limits stand in for them
            let mut bounds: Vec<u64> = if cb != "csvdump" {
                (0..40).map(|_| rng.below(maxsize + 1)).collect()
            } else {
                base.trace.iter().filter(|x| x.op == "write").filter_map(|x| x.num("size")).map(|x| x as u64).collect()
            };
            bounds.sort();
            bounds.dedup();
            if bounds.len() > 40 {
                let step = bounds.len() / 40 + 1;
                bounds = bounds.into_iter().step_by(step).collect();
            }
            for b in bounds {
                limits.extend([b.saturating_sub(1), b, b + 1]);
            }
            for _ in 0..30 {
                limits.push(rng.below(maxsize + 1));
            }
            limits.sort();
            limits.dedup();
        }
        for l in &limits {
            for capx in [cap, if cap == 4_000_000 { if big_world { 16_384 } else { 64 } } else { 4_000_000 }] {
                if maxsize > 2000 && capx != cap && rng.chance(2, 3) {
                    continue;
                }
                if !mine() {
                    continue;
                }
                h.check(&mut mk("limit", &|r| {
                    r.plan.writer_cap = Some(capx);
                    r.plan.limits = vec![("*".into(), *l)];
                }))?;
            }
        }
        // (2b) an unreadable block on a device that is also full: both faults in one run
        {
            let mut hs = vec![s, (s + e) / 2, e];
            hs.dedup();
            for hh in hs {
                for f in [DiskFault::RemoveFile { height: hh }, DiskFault::Truncate { height: hh, off: 44 }] {
                    for l in [0u64, maxsize / 2] {
                        for capx in [4_000_000usize, if big_world { 8192 } else { 7 }] {
                            if mine() {
                                h.check(&mut mk("input-fault+limit", &|r| {
                                    r.disk_faults = vec![f.clone()];
                                    r.plan.writer_cap = Some(capx);
                                    r.plan.limits = vec![("*".into(), l)];
                                }))?;
                            }
                        }
                    }
                }
            }
        }
        let hash_ordered = cb != "csvdump";
        if hash_ordered {
            // unspent / balances write their rows in the process's HashMap order, so the sizes and even the
            // number of write calls differ between two executions: faults and kill points after the first
            // write are addressed by the ORDINAL of the write call (and of the rename), with byte counts that do
            // not depend on the row order; everything before the first write is addressed by event index.
            let rows = {
                let m = Model::new(&world);
                if cb == "balances" { m.balance_rows(s, e).0.len() } else { m.unspent_rows(s, e).0.len() }
            } as u64;
            let n_w = (rows + 2).min(120);
            if rows + 2 <= 120 {
                h.stats.probe("write_events_enumerated_fully");
            }
            for k in 1..=n_w {
                for (errno, after) in [(28, Some(0u64)), (28, Some(1)), (28, Some(1 << 40)), ([5, 32, 27, 122, 11, 9][(k % 6) as usize], None)] {
                    if mine() {
                        h.check(&mut mk("write-fail", &|r| {
                            r.plan.failw = vec![PointFail { at: k, errno, after, once: false }]
                        }))?;
                    }
                }
                for after in [None, Some(1u64), Some(1 << 40)] {
                    if mine() {
                        h.check(&mut mk("crash", &|r| r.plan.crashw = Some((k, after))))?;
                    }
                }
            }
            for after in [false, true] {
                if mine() {
                    h.check(&mut mk("crash", &|r| r.plan.crashr = Some((1, after))))?;
                }
            }
            // kill before every event up to (and including) the first write: that prefix is the same in every execution
            let first_write = base.trace.iter().find(|x| x.op == "write").map(|x| x.seq).unwrap_or(0);
            let mut evs: Vec<u64> = (0..=first_write).collect();
            if evs.len() > 250 {
                let tail: Vec<u64> = evs.split_off(evs.len() - 40);
                let mut sampled: Vec<u64> = (0..150).map(|_| evs[rng.usize(0, evs.len() - 1)]).collect();
                sampled.extend(tail);
                sampled.sort();
                sampled.dedup();
                evs = sampled;
            } else {
                h.stats.probe("crash_points_enumerated_fully");
            }
            for i in evs {
                if mine() {
                    h.check(&mut mk("crash", &|r| r.plan.crash = Some((i, None))))?;
                }
            }
        }
        let mut writes: Vec<&Ev> = if hash_ordered { vec![] } else { base.trace.iter().filter(|x| x.op == "write").collect() };
        if writes.len() > 120 {
            let keep_tail = writes.split_off(writes.len() - 20);
            let mut sampled: Vec<&Ev> = Vec::new();
            for _ in 0..100 {
                sampled.push(writes[rng.usize(0, writes.len() - 1)]);
            }
            sampled.extend(keep_tail);
            sampled.sort_by_key(|x| x.seq);
            sampled.dedup_by_key(|x| x.seq);
            writes = sampled;
        } else if !hash_ordered {
            h.stats.probe("write_events_enumerated_fully");
        }
        for w in &writes {
            let n = w.num("want").unwrap_or(0) as u64;
            let mut ks = vec![0u64, n / 2, n.saturating_sub(1)];
            ks.dedup();
            for k in ks {
                if !mine() {
                    continue;
                }
                h.check(&mut mk("write-fail", &|r| {
                    r.plan.fails = vec![PointFail {
                        at: w.seq,
                        errno: 28,
                        after: Some(k),
                        once: false,
                    }]
                }))?;
            }
            if mine() {
              // other error kinds a write can report: EIO, EPIPE, EFBIG, EDQUOT, EAGAIN, EBADF (rotating)
            let errno = [5, 32, 27, 122, 11, 9][(w.seq % 6) as usize];
            h.check(&mut mk("write-fail", &|r| {
                r.plan.fails = vec![PointFail {
                    at: w.seq,
                    errno,
                    after: None,
                    once: false,
                }]
              }))?;
            }
        }
        // (3) crash points: before every event (sampled when the trace is long), inside every kept write
        let mut evs: Vec<u64> = if hash_ordered { vec![] } else { base.trace.iter().map(|x| x.seq).collect() };
        if evs.len() > 250 {
            let tail: Vec<u64> = evs.split_off(evs.len() - 40);
            let mut sampled: Vec<u64> = (0..150).map(|_| evs[rng.usize(0, evs.len() - 1)]).collect();
            sampled.extend(tail);
            sampled.sort();
            sampled.dedup();
            evs = sampled;
        } else if !hash_ordered {
            h.stats.probe("crash_points_enumerated_fully");
        }
        for i in evs {
            if mine() {
                h.check(&mut mk("crash", &|r| r.plan.crash = Some((i, None))))?;
            }
        }
        // one past the last event: the process ends normally
        for w in &writes {
            let n = w.num("want").unwrap_or(0) as u64;
            let mut ks = vec![1u64.min(n), n / 2, n.saturating_sub(1)];
            ks.dedup();
            for k in ks {
                if mine() {
                    h.check(&mut mk("crash", &|r| r.plan.crash = Some((w.seq, Some(k)))))?;
                }
            }
        }
        // (3b) catchable signals (SIGTERM, SIGINT, SIGHUP) raised before an I/O event: whatever the program
        // does about them, exit 0 keeps its meaning and no final-named file is ever partial
        {
            let last = if hash_ordered { base.trace.iter().find(|x| x.op == "write").map(|x| x.seq).unwrap_or(0) } else { base.trace.last().map(|x| x.seq).unwrap_or(0) };
            let mut at: Vec<u64> = (0..=last).collect();
            if at.len() > 45 {
                let mut pick: Vec<u64> = (0..40).map(|_| at[rng.usize(0, at.len() - 1)]).collect();
                pick.extend([0, last / 2, last.saturating_sub(1), last]);
                pick.sort();
                pick.dedup();
                at = pick;
            }
            for (k, i) in at.into_iter().enumerate() {
                if mine() {
                    let signo = [15, 2, 1][k % 3];
                    h.check(&mut mk("signal", &|r| r.plan.signal = Some((i, signo))))?;
                }
            }
        }
        // (4') failure to create each output file (e.g. dump folder not writable)
        for ev in base.trace.iter().filter(|x| x.op == "create") {
            if !mine() {
                continue;
            }
            h.check(&mut mk("create-fail", &|r| {
                r.plan.fails = vec![PointFail {
                    at: ev.seq,
                    errno: 13,
                    after: None,
                    once: false,
                }]
            }))?;
        }
        // (4) rename failures
        if hash_ordered && mine() {
            h.check(&mut mk("rename-fail", &|r| r.plan.failr = vec![(1, 13)]))?;
        }
        // a write that fails ONCE (the condition has cleared by the next attempt): still "a write failed"
        {
            // number of write calls: from the trace for csvdump (same in every execution), from the model for
            // the hash-ordered callbacks (rows + header + slack)
            let n_writes = if hash_ordered {
                let m = Model::new(&world);
                (if cb == "balances" { m.balance_rows(s, e).0.len() } else { m.unspent_rows(s, e).0.len() }) as u64 + 2
            } else {
                base.trace.iter().filter(|x| x.op == "write").count() as u64
            };
            for k in 1..=n_writes.min(40) {
                if mine() {
                    let errno = [28, 11, 122, 5][(k % 4) as usize];
                    h.check(&mut mk("write-fail", &|r| {
                        r.plan.failw = vec![PointFail {
                            at: k,
                            errno,
                            after: None,
                            once: true,
                        }]
                    }))?;
                }
            }
        }
        // the tmp file is gone when it is to be renamed (cleaned up by someone else), with and without
        // an earlier result of the same final name in the folder
        {
            let n_ren = if hash_ordered { 1 } else { 4 };
            for j in 1..=n_ren {
                if mine() {
                    h.check(&mut mk("rename-fail", &|r| r.plan.vanishr = Some(j)))?;
                }
            }
        }
        for ev in base.trace.iter().filter(|x| x.op == "rename" && !hash_ordered) {
            if !mine() {
                continue;
            }
            h.check(&mut mk("rename-fail", &|r| {
                r.plan.fails = vec![PointFail {
                    at: ev.seq,
                    errno: 13,
                    after: None,
                    once: false,
                }]
            }))?;
        }
        let _ = json!(null);
        Ok(())
    }

    fn nontrivial(&self, scn: &Scenario, outs: &[RunOutcome]) -> bool {
        let o = &outs[0];
        match scn.family.as_str() {
            "benign" => o.exit.ok(),
            "crash" => o.trace.iter().any(|e| e.op == "crash"),
            "signal" => o.trace.iter().any(|e| e.op == "signal"),
            "input-fault" | "input-fault+limit" | "record-without-data" => !o.exit.ok(),
            "empty-range" => true,
            _ => o.trace.iter().any(|e| matches!(e.result(), Some((false, n)) if n != 4)),
        }
    }

    fn judge(&self, scn: &Scenario, m: &Model, outs: &[RunOutcome], st: &mut Stats) -> Vec<Violation> {
        let mut v = Vec::new();
        let r = &scn.runs[0];
        let o = &outs[0];
        let cb = r.callback.as_str();
        let stems = stems_of(cb);
        let is_mine = |name: &str| parse_final(name).map(|(s, _, _)| stems.contains(&s.as_str())).unwrap_or(false);
        let changed: Vec<&String> = new_or_changed(o);
        let final_changed: Vec<&String> = changed.iter().copied().filter(|n| is_final_name(n) && is_mine(n)).collect();

        // (6) in-run witness at every rename that succeeded
        for ev in o.trace.iter().filter(|e| e.op == "rename") {
            if !matches!(ev.result(), Some((true, _))) && !ev.raw.ends_with("-> ok") {
                continue;
            }
            let dst = ev.raw.split_whitespace().nth(4).unwrap_or("");
            if let Some((stem, s, e)) = parse_final(dst) {
                if let Some(exp) = expected_file(m, &stem, s, e) {
                    let sz = ev.num("src_size").unwrap_or(-1);
                    if sz as u64 != exp.size() {
                        v.push(viol(
                            format!("C10/{}/renamed-before-complete", cb),
                            format!("at the rename to {} the file held {} bytes on disk; the complete file has {}", dst, sz, exp.size()),
                        ));
                        break;
                    }
                }
            }
        }

        // other files must never be touched
        for (n, c) in &o.dump_before {
            let mine_tmp = stems.iter().any(|s| *n == format!("{}.csv.tmp", s));
            if !is_mine(n) && !mine_tmp && o.dump.get(n) != Some(c) {
                v.push(viol(format!("C10/{}/foreign-file-touched", cb), format!("pre-existing file {} was modified or removed", n)));
            }
        }

        let fault_fired = o.trace.iter().any(|e| e.op == "crash" || matches!(e.result(), Some((false, n)) if n != 4));
        match scn.family.as_str() {
            "benign" => {
                if !scn.dump_pre.is_empty() {
                    st.probe("stale_same_name_final_present");
                }
                if !o.exit.ok() {
                    v.push(viol(format!("C10/{}/benign-run-failed", cb), format!("exit {:?}: {}", o.exit, super::c01::tail(&o.stderr_str()))));
                } else {
                    v.extend(self.judge_success(cb, m, r, o, st));
                }
            }
            "crash" => {
                let crashed = o.trace.iter().any(|e| e.op == "crash");
                if !crashed {
                    st.faults_planned_not_reached += 0;
                }
                if let Some(c) = o.trace.iter().find(|e| e.op == "crash") {
                    if c.raw.contains("crash in write") {
                        st.probe("crash_inside_write");
                    }
                    let renames_before = o.trace.iter().filter(|e| e.op == "rename").count();
                    if cb == "csvdump" && renames_before >= 1 && renames_before < 4 {
                        st.probe("crash_between_renames");
                    }
                }
                for n in &final_changed {
                    let (stem, s, e) = parse_final(n).unwrap();
                    let exp = expected_file(m, &stem, s, e).unwrap();
                    if !exp.matches(&o.dump[*n]) {
                        v.push(viol(
                            format!("C10/{}/partial-final-file-after-kill", cb),
                            format!("killed at {:?}: {} holds {} bytes, the complete file has {}", r.plan.crash, n, o.dump[*n].len(), exp.size()),
                        ));
                        break;
                    }
                }
                if !crashed && o.exit.ok() {
                    v.extend(self.judge_success(cb, m, r, o, st));
                }
            }
            "input-fault" | "read-eio" => {
                let expect_h = if scn.family == "read-eio" {
                    // the height being fetched when the failing read was issued
                    let fail_at = r.plan.fails.first().map(|f| f.at).unwrap_or(u64::MAX);
                    let mut hh = None;
                    for e in &o.trace {
                        if e.seq >= fail_at {
                            break;
                        }
                        if e.op == "height" {
                            hh = e.class.parse::<u64>().ok();
                        }
                    }
                    if fault_fired {
                        hh
                    } else {
                        None
                    }
                } else {
                    failing_height(scn, m, r, &o.info)
                };
                match expect_h {
                    None => {
                        // fault outside the processed range: the run must simply succeed
                        if o.exit.ok() {
                            v.extend(self.judge_success(cb, m, r, o, st));
                        } else {
                            v.push(viol(format!("C10/{}/benign-run-failed", cb), format!("fault does not touch the processed range, but exit {:?}", o.exit)));
                        }
                    }
                    Some(hh) => {
                        if o.exit.ok() {
                            v.push(viol(format!("C10/{}/exit0-after-input-fault", cb), format!("block {} cannot be read ({:?}{:?}) but the run exited 0", hh, r.disk_faults, r.plan.fails)));
                        } else {
                            let none_left = scn.layouts[r.layout].files.len() == 1 && matches!(r.disk_faults.first(), Some(DiskFault::RemoveFile { .. }));
                            if scn.layouts[r.layout].files.len() == 1 {
                                st.probe("input_fault_in_single_file_directory");
                            }
                            match error_height(&o.stderr_str()) {
                                Some(n) if n == hh => {}
                                x if none_left => v.push(viol(
                                    format!("C10/{}/no-height-when-no-blk-file-left", cb),
                                    format!("the only blk file was removed: height {} cannot be read; stderr reports {:?}: {}", hh, x, super::c01::tail(&o.stderr_str())),
                                )),
                                x => v.push(viol(
                                    format!("C10/{}/failing-height-not-reported", cb),
                                    format!("fault makes height {} unreadable ({:?}{:?}); stderr reports {:?}: {}", hh, r.disk_faults, r.plan.fails, x, super::c01::tail(&o.stderr_str())),
                                )),
                            }
                        }
                        if let Some(n) = final_changed.first() {
                            v.push(viol(format!("C10/{}/final-file-after-failure", cb), format!("input fault at height {}: final-named file {} was written", hh, n)));
                        }
                    }
                }
            }
            "signal" => {
                if o.trace.iter().any(|e| e.op == "signal") {
                    st.probe("catchable_signal_delivered");
                    // during the range = after the first block was fetched and before the last rename
                    let si = o.trace.iter().position(|e| e.op == "signal").unwrap();
                    if o.trace[..si].iter().any(|e| e.op == "height") && !o.trace[..si].iter().any(|e| e.op == "rename") {
                        st.probe("signal_mid_range");
                    }
                }
                for n in &final_changed {
                    let (stem, s, e) = parse_final(n).unwrap();
                    let complete = expected_file(m, &stem, s, e).map(|x| x.matches(&o.dump[*n])).unwrap_or(false);
                    let (s0, e0) = (r.start.unwrap_or(0), r.end.map(|e| e.min(m.tip())).unwrap_or(m.tip()));
                    if !complete || (s, e) != (s0, e0) {
                        v.push(viol(
                            format!("C10/{}/partial-final-file-after-signal", cb),
                            format!("signal {:?}: {} ({} bytes) is not the complete output of the range {}..{}", r.plan.signal, n, o.dump[*n].len(), s0, e0),
                        ));
                        break;
                    }
                }
                if o.exit.ok() {
                    v.extend(self.judge_success(cb, m, r, o, st));
                }
            }
            "record-without-data" => {
                st.probe("record_without_block_data_in_range");
                if o.exit.ok() {
                    v.push(viol(format!("C10/{}/exit0-after-input-fault", cb), format!("the record of height {:?} has no block data, but the run exited 0", scn.index.pruned_at)));
                }
                if let Some(n) = final_changed.first() {
                    v.push(viol(format!("C10/{}/final-file-after-failure", cb), format!("the record of height {:?} has no block data: final-named file {} was written", scn.index.pruned_at, n)));
                }
            }
            "empty-range" => {
                st.probe("start_above_tip");
                if o.exit.ok() {
                    for sname in stems.iter() {
                        if o.dump.contains_key(&format!("{}.csv.tmp", sname)) {
                            v.push(viol(format!("C10/{}/tmp-left-after-success", cb), format!("start {:?} above tip {}: {}.csv.tmp remains after exit 0", r.start, m.tip(), sname)));
                        }
                        let mine_final: Vec<&&String> = final_changed.iter().filter(|n| parse_final(n).map(|x| x.0 == *sname).unwrap_or(false)).collect();
                        if mine_final.len() != 1 {
                            v.push(viol(format!("C10/{}/incomplete-output-on-exit0", cb), format!("start {:?} above tip {}: exit 0 but {} final-named {} files were written", r.start, m.tip(), mine_final.len(), sname)));
                            continue;
                        }
                        // complete = what an undisturbed run over no block at all holds: no data row
                        let body = String::from_utf8_lossy(&o.dump[*mine_final[0]]).into_owned();
                        let rows = body.lines().filter(|l| !l.is_empty() && *l != "txid;indexOut;height;value;address" && *l != "address;balance").count();
                        if rows != 0 {
                            v.push(viol(format!("C10/{}/incomplete-output-on-exit0", cb), format!("start {:?} above tip {}: {} holds {} data rows", r.start, m.tip(), mine_final[0], rows)));
                        }
                    }
                } else if let Some(n) = final_changed.first() {
                    v.push(viol(format!("C10/{}/final-file-after-failure", cb), format!("start {:?} above tip {}: exit {:?} yet final-named file {} was written", r.start, m.tip(), o.exit, n)));
                }
            }
            "input-fault+limit" => {
                st.probe("input_fault_on_full_device");
                if o.exit.ok() {
                    v.push(viol(format!("C10/{}/exit0-after-input-fault", cb), format!("unreadable block ({:?}) and size limit {:?}, but the run exited 0", r.disk_faults, r.plan.limits)));
                }
                if let Some(n) = final_changed.first() {
                    v.push(viol(format!("C10/{}/final-file-after-failure", cb), format!("unreadable block and size limit: final-named file {} was written", n)));
                }
                if let Some(hh) = failing_height(scn, m, r, &o.info) {
                    // which fault did the run meet first?
                    let mark = o.trace.iter().position(|e| e.op == "height" && e.class.parse::<u64>().ok() == Some(hh));
                    let wfail = o.trace.iter().position(|e| e.op == "write" && matches!(e.result(), Some((false, n)) if n != 4));
                    if let Some(mk_i) = mark {
                        if wfail.map(|w| w > mk_i).unwrap_or(true) && !o.exit.ok() {
                            st.probe("input_fault_met_before_any_write_failure");
                            match error_height(&o.stderr_str()) {
                                Some(n) if n == hh => {}
                                x => v.push(viol(
                                    format!("C10/{}/failing-height-not-reported", cb),
                                    format!("height {} unreadable ({:?}) before any write had failed (limit {:?}); stderr reports {:?}: {}", hh, r.disk_faults, r.plan.limits, x, super::c01::tail(&o.stderr_str())),
                                )),
                            }
                        }
                    }
                }
            }
            "create-fail" => {
                st.probe("create_failure");
                if o.exit.ok() {
                    v.push(viol(format!("C10/{}/exit0-after-create-failure", cb), "an output file could not be created but the run exited 0"));
                }
                if let Some(n) = final_changed.first() {
                    v.push(viol(format!("C10/{}/final-file-after-create-failure", cb), format!("an output file could not be created, yet final-named file {} was left by the run", n)));
                }
            }
            "limit" | "write-fail" | "rename-fail" => {
                let write_failed = o.trace.iter().any(|e| e.op == "write" && matches!(e.result(), Some((false, n)) if n != 4));
                let rename_failed = o.trace.iter().any(|e| e.op == "rename" && e.raw.contains("-> err"));
                if scn.family == "limit" {
                    if r.plan.limits.first().map(|l| l.1) == Some(0) {
                        st.probe("limit_zero");
                    }
                }
                if write_failed {
                    // where did the failing write land?
                    let first_fail = o.trace.iter().position(|e| e.op == "write" && matches!(e.result(), Some((false, n)) if n != 4)).unwrap();
                    let marked = o.trace[..first_fail].iter().filter(|e| e.op == "height").count() as u64;
                    let s0 = r.start.unwrap_or(0);
                    let total = r.end.map(|e| e.min(m.tip())).unwrap_or(m.tip()) + 1 - s0;
                    if marked < total {
                        st.probe("enospc_midrun");
                    } else if r.plan.writer_cap.unwrap_or(4_000_000) >= 4_000_000 {
                        st.probe("enospc_on_final_flush");
                    }
                    if o.exit.ok() {
                        v.push(viol(
                            format!("C10/{}/exit0-after-write-failure", cb),
                            format!("a write to an output file failed ({:?}{:?}, writer capacity {:?}) but the run exited 0", r.plan.limits, r.plan.fails, r.plan.writer_cap),
                        ));
                    }
                    if let Some(n) = final_changed.first() {
                        v.push(viol(
                            format!("C10/{}/final-file-after-write-failure", cb),
                            format!("a write failed ({:?}{:?}) yet final-named file {} ({} bytes) was left by the run", r.plan.limits, r.plan.fails, n, o.dump[*n].len()),
                        ));
                    }
                } else if rename_failed {
                    if o.exit.ok() {
                        v.push(viol(format!("C10/{}/exit0-after-rename-failure", cb), "rename failed but the run exited 0"));
                    }
                } else {
                    // the fault never fired (limit above the output size): must succeed completely
                    if o.exit.ok() {
                        v.extend(self.judge_success(cb, m, r, o, st));
                    } else {
                        v.push(viol(format!("C10/{}/benign-run-failed", cb), format!("no fault fired, exit {:?}: {}", o.exit, super::c01::tail(&o.stderr_str()))));
                    }
                }
            }
            _ => {}
        }
        v
    }
}

impl C10 {
    /// exit 0 ⇒ all outputs final-named, complete, no tmp left
    fn judge_success(&self, cb: &str, m: &Model, r: &RunSpec, o: &RunOutcome, st: &mut Stats) -> Vec<Violation> {
        let mut v = Vec::new();
        for s in stems_of(cb) {
            if o.dump.contains_key(&format!("{}.csv.tmp", s)) {
                v.push(viol(format!("C10/{}/tmp-left-after-success", cb), format!("{}.csv.tmp remains after exit 0", s)));
            }
        }
        let vs = compare_with_model(&format!("C10/{}/incomplete-output-on-exit0", cb), m, r, o, &CmpOpts { addr: false, decimals: false }, st);
        // collapse sub-classes: the class is the prefix
        for x in vs {
            v.push(viol(format!("C10/{}/incomplete-output-on-exit0", cb), x.detail));
        }
        v
    }
}
