//! C12 — AuxPoW sections are skipped exactly.
use crate::check::*;
use crate::desc::*;
use crate::exec::*;
use crate::gen::*;
use crate::oracle::*;
use crate::render::Model;
use crate::util::*;

pub struct C12;

impl Prop for C12 {
    fn id(&self) -> &'static str {
        "C12"
    }
    fn rule(&self) -> String {
        "chains on namecoin/dogecoin mixing block versions below, equal to and above the activation version (0x10101 / 0x620102, incl. 0x2xxxxxxx and 0xffffffff); every at-or-above block carries an AuxPoW section (parent coinbase legacy/segwit of any shape, branch lengths 0,1,2,3,5,8,32,33,253, any masks); the six other coins get the same versions without a section (negative control), and additionally, enumerated, the merged-mining style version (chain id << 16 | 0x100 | base) of every chain id 0..127, 0x1000, 0x2000, 0xffff. Every callback of the five is compared with the reference model of the chain (hash = double-SHA of the 80-byte header, same tx rows), --verify on half of the runs, under read chunking and layouts. Non-trivial = chain has both a section-bearing and a section-free block (AuxPoW coins) or a high-version block (controls); distinct by scenario hash.".into()
    }
    fn items(&self, tier: Tier) -> u64 {
        // + merged-mining style versions (chain id << 16 | 0x100 | base) for every chain id 0..=127 and three
        // large ones, on each of the six coins that have no AuxPoW: 6 x 131 items
        6 * 131 + if tier == Tier::Quick { 900 } else { 12000 }
    }
    fn required_probes(&self, _tier: Tier) -> Vec<&'static str> {
        vec!["version_equal_threshold", "version_below_threshold", "branch_len_ge_32", "segwit_parent_coinbase", "control_coin_high_version", "branch_len_253", "merged_mining_style_version_on_control_coin"]
    }
    fn explore(&self, item: u64, rng: &mut Rng, _tier: Tier, h: &mut Harness) -> Result<(), String> {
        let chain_id: Option<u32> = if item < 6 * 131 {
            let k = (item / 6) as u32;
            Some(match k {
                0..=127 => k,
                128 => 0x1000,
                129 => 0x2000,
                _ => 0xffff,
            })
        } else {
            None
        };
        let controls: Vec<&str> = COINS.iter().copied().filter(|c| coin_params(c).auxpow_version.is_none()).collect();
        let item = item.saturating_sub(6 * 131);
        let coin = match item % 4 {
            _ if chain_id.is_some() => controls[(h.item % 6) as usize],
            0 | 2 => "namecoin",
            1 => "dogecoin",
            _ => COINS[(item / 4 % 8) as usize],
        };
        let mut scn = new_scenario("C12", "auxpow", coin);
        let sh = TxShape {
            max_in: 3,
            max_out: 4,
            boundary: rng.chance(1, 4),
            big: rng.chance(1, 10),
            segwit_ok: true,
            random_scripts: false,
            edge_values: false,
        };
        let nb = rng.usize(2, 10);
        for i in 0..nb {
            let mut b = rich_block(coin, i as u64, rng.usize(1, 3), rng, &sh, true);
            b.bits = 0x1d00ffff;
            b.time = 1_400_000_000 + i as u32 * 600;
            if let Some(a) = b.auxpow.as_mut() {
                if rng.chance(1, 12) {
                    a.coinbase_branch.hashes = (0..253).map(|_| Bytes(rng.bytes(32))).collect();
                }
            }
            if let Some(id) = chain_id {
                // what a merged-mined block of chain `id` would carry in its version field; these coins
                // have no AuxPoW, so nothing follows the 80-byte header
                b.version = (id << 16) | if i % 3 == 2 { 0 } else { 0x100 } | rng.range(1, 4) as u32;
                b.auxpow = None;
            }
            scn.chain.push(b);
        }
        if chain_id.is_some() {
            scn.family = "chain-id-versions".into();
            h.stats.probe("merged_mining_style_version_on_control_coin");
        }
        scn.layouts = vec![random_layout(nb, 3, true, rng)];
        scn.index = index_opts(rng);
        let cb = *rng.pick(&["csvdump", "csvdump", "csvdump", "unspentcsvdump", "balances", "simplestats", "opreturn"]);
        let mut r = RunSpec::new(cb);
        r.threads = pick_threads(rng);
        r.plan = benign_plan(rng);
        r.verify = rng.coin();
        if r.verify {
            r.start = Some(1);
        }
        fit_chunks(&mut r.plan, chain_bytes(&scn.chain), 150_000);
        scn.runs = vec![r];
        super::dress(&mut scn, rng, true);
        h.check(&mut scn)?;
        Ok(())
    }
    fn nontrivial(&self, scn: &Scenario, outs: &[RunOutcome]) -> bool {
        let with = scn.chain.iter().filter(|b| b.auxpow.is_some()).count();
        outs[0].exit.ok() && ((with > 0 && with < scn.chain.len()) || (coin_params(&scn.coin).auxpow_version.is_none() && scn.chain.iter().any(|b| b.version >= 0x10101)))
    }
    fn judge(&self, scn: &Scenario, m: &Model, outs: &[RunOutcome], st: &mut Stats) -> Vec<Violation> {
        let thr = coin_params(&scn.coin).auxpow_version;
        for b in &scn.chain {
            match thr {
                Some(t) => {
                    if b.version == t {
                        st.probe("version_equal_threshold");
                    }
                    if b.version < t {
                        st.probe("version_below_threshold");
                    }
                    if let Some(a) = &b.auxpow {
                        if a.coinbase_branch.hashes.len() >= 32 || a.chain_branch.hashes.len() >= 32 {
                            st.probe("branch_len_ge_32");
                        }
                        if a.coinbase_branch.hashes.len() >= 253 {
                            st.probe("branch_len_253");
                        }
                        if a.coinbase_tx.segwit {
                            st.probe("segwit_parent_coinbase");
                        }
                    }
                }
                None => {
                    if b.version >= 0x620102 {
                        st.probe("control_coin_high_version");
                    }
                }
            }
        }
        let (r, o) = (&scn.runs[0], &outs[0]);
        if !o.exit.ok() {
            return vec![viol("C12/run-failed", format!("exit {:?}: {}", o.exit, super::c01::tail(&o.stderr_str())))];
        }
        compare_with_model("C12", m, r, o, &CmpOpts { addr: false, decimals: false }, st)
    }
}
