//! Oracle pieces shared by several properties.
use crate::check::*;
use crate::desc::*;
use crate::exec::*;
use crate::obs::*;
use crate::render::*;

fn strip_addr(line: &str) -> &str {
    match line.rfind(';') {
        Some(i) => &line[..i],
        None => line,
    }
}

/// first differing line between two csv bodies
pub fn first_diff(exp: &[u8], got: &[u8]) -> String {
    let e = String::from_utf8_lossy(exp);
    let g = String::from_utf8_lossy(got);
    let (mut ei, mut gi) = (e.lines(), g.lines());
    let mut n = 0;
    loop {
        match (ei.next(), gi.next()) {
            (None, None) => return "identical?".into(),
            (a, b) if a != b => {
                let cut = |s: Option<&str>| s.map(|x| if x.len() > 300 { format!("{}…({} chars)", &x[..300], x.len()) } else { x.to_string() });
                return format!("row {}: expected {:?} got {:?}", n, cut(a), cut(b));
            }
            _ => n += 1,
        }
    }
}

pub struct CsvCmp {
    pub range: (u64, u64),
    pub rows: (u64, u64, u64, u64),
}

/// Compare the four csvdump files in `dump` with the model, for the range the
/// file names carry. `addr`: also compare the address column (where the model is certain).
pub fn compare_csvdump(pfx: &str, m: &Model, o: &RunOutcome, addr: bool, st: &mut Stats) -> Result<CsvCmp, Violation> {
    let b = run_files(o, "blocks");
    if b.len() != 1 {
        return Err(viol(format!("{}/files-missing", pfx), format!("expected exactly one blocks-*.csv, found {} ({:?})", b.len(), o.dump.keys().collect::<Vec<_>>())));
    }
    let (s, e) = (b[0].0, b[0].1);
    let x = m.csv(s, e);
    let mut rows = [0u64; 4];
    for (k, (stem, exp)) in [("blocks", &x.blocks), ("transactions", &x.transactions), ("tx_in", &x.tx_in), ("tx_out", &x.tx_out)].iter().enumerate() {
        let f: Vec<_> = final_files(&o.dump, stem).into_iter().filter(|f| (f.0, f.1) == (s, e)).collect();
        if f.len() != 1 {
            return Err(viol(format!("{}/files-missing", pfx), format!("{}-{}-{}.csv missing", stem, s, e)));
        }
        let got = f[0].3;
        rows[k] = got.iter().filter(|c| **c == b'\n').count() as u64;
        if *stem == "tx_out" && (!addr || !x.tx_out_unknown_addr.is_empty()) {
            let es = String::from_utf8_lossy(exp);
            let gs = String::from_utf8_lossy(got);
            let el: Vec<&str> = es.lines().collect();
            let gl: Vec<&str> = gs.lines().collect();
            let mut bad = el.len() != gl.len();
            if !bad {
                for (i, (a, b)) in el.iter().zip(gl.iter()).enumerate() {
                    let skip_addr = !addr || x.tx_out_unknown_addr.binary_search(&i).is_ok();
                    let same = if skip_addr { strip_addr(a) == strip_addr(b) } else { a == b };
                    if !same {
                        bad = true;
                        break;
                    }
                }
            }
            if addr {
                st.abstain("tx_out address column: statement silent for this script", x.tx_out_unknown_addr.len() as u64);
            }
            if bad {
                let e2: Vec<u8> = el.iter().map(|l| if addr { l.to_string() } else { strip_addr(l).to_string() }).collect::<Vec<_>>().join("\n").into_bytes();
                let g2: Vec<u8> = gl.iter().map(|l| if addr { l.to_string() } else { strip_addr(l).to_string() }).collect::<Vec<_>>().join("\n").into_bytes();
                return Err(viol(format!("{}/tx_out-mismatch", pfx), format!("tx_out-{}-{}.csv: {}", s, e, first_diff(&e2, &g2))));
            }
        } else if *exp != got {
            return Err(viol(format!("{}/{}-mismatch", pfx, stem), format!("{}-{}-{}.csv: {}", stem, s, e, first_diff(exp, got))));
        }
    }
    Ok(CsvCmp {
        range: (s, e),
        rows: (rows[0], rows[1], rows[2], rows[3]),
    })
}

/// compare an unspent / balances file (header + row set) with the model
pub fn compare_rowset(pfx: &str, stem: &str, header: &str, want: &[String], o: &RunOutcome) -> Result<(u64, u64), Violation> {
    let f = run_files(o, stem);
    if f.len() != 1 {
        return Err(viol(format!("{}/files-missing", pfx), format!("expected exactly one {}-*.csv, found {}", stem, f.len())));
    }
    let text = String::from_utf8_lossy(f[0].3).into_owned();
    let mut lines: Vec<&str> = text.lines().collect();
    if lines.first().copied() != Some(header) {
        return Err(viol(format!("{}/header", pfx), format!("{} header is {:?}", stem, lines.first())));
    }
    lines.remove(0);
    if !text.ends_with('\n') {
        return Err(viol(format!("{}/truncated-row", pfx), format!("{} does not end with a newline", stem)));
    }
    let mut got: Vec<&str> = lines.clone();
    got.sort();
    for w in got.windows(2) {
        if w[0] == w[1] {
            return Err(viol(format!("{}/duplicate-row", pfx), format!("{} lists {:?} twice", stem, w[0])));
        }
    }
    let mut exp: Vec<&str> = want.iter().map(|s| s.as_str()).collect();
    exp.sort();
    if got != exp {
        let missing: Vec<&&str> = exp.iter().filter(|x| got.binary_search(x).is_err()).take(3).collect();
        let extra: Vec<&&str> = got.iter().filter(|x| exp.binary_search(x).is_err()).take(3).collect();
        let kind = if !missing.is_empty() && extra.is_empty() {
            "missing-rows"
        } else if missing.is_empty() {
            "extra-rows"
        } else {
            "wrong-rows"
        };
        return Err(viol(format!("{}/{}", pfx, kind), format!("{}-{}-{}.csv: {} rows, expected {}; missing {:?}; unexpected {:?}", stem, f[0].0, f[0].1, got.len(), exp.len(), missing, extra)));
    }
    Ok((f[0].0, f[0].1))
}

/// final files of `stem` this run produced (all of them if that cannot be told apart)
pub fn run_files<'a>(o: &'a RunOutcome, stem: &str) -> Vec<(u64, u64, &'a String, &'a Vec<u8>)> {
    let all = final_files(&o.dump, stem);
    if all.len() > 1 {
        // other results live in the folder: take the one named for the range this run reports
        if let Some((s, e)) = o.reported() {
            let mine: Vec<_> = all.iter().filter(|f| (f.0, f.1) == (s, e)).cloned().collect();
            if mine.len() == 1 {
                return mine;
            }
        }
        let changed = new_or_changed(o);
        let mine: Vec<_> = all.iter().filter(|f| changed.contains(&f.2)).cloned().collect();
        if mine.len() == 1 {
            return mine;
        }
    }
    all
}

pub fn range_of_files(o: &RunOutcome, stem: &str) -> Option<(u64, u64)> {
    let f = run_files(o, stem);
    if f.len() == 1 {
        Some((f[0].0, f[0].1))
    } else {
        None
    }
}

/// range the run reports having processed: start option and "Processed blocks up to height"
pub fn reported_range(r: &RunSpec, o: &RunOutcome) -> Option<(u64, u64)> {
    processed_upto(&o.stdout_str()).map(|e| (r.start.unwrap_or(0), e))
}

// ------------------------------------------------------------------ all-callback model comparison

/// |printed - p/q| <= half a unit in the last place + relative slack for f64 evaluation
pub fn decimal_ok(printed: &str, p: u128, q: u128, decimals: u32) -> bool {
    decimal_check(printed, p, q, decimals, false)
}

/// `exact_if_dyadic`: for figures the program obtains by ONE floating-point division of two integers (a mean
/// = sum / len, possibly scaled by a constant whose quotient stays representable): if the exact value is a
/// dyadic rational the division is exact and the rendering is determined. Not for figures computed through an
/// inexact intermediate (a share = ratio x 100): there the half-unit tolerance is all the statement supports.
pub fn decimal_check(printed: &str, p: u128, q: u128, decimals: u32, exact_if_dyadic: bool) -> bool {
    if q == 0 {
        // mean over nothing: the program prints NaN or 0.00; statement silent
        return true;
    }
    let v = match printed.parse::<f64>() {
        Ok(v) => v,
        Err(_) => return false,
    };
    // a value that is exactly representable in binary (reduced denominator a power of two) is computed
    // exactly by any sum/len in floating point, and its decimal rendering is then determined: the printed
    // string must be the correctly rounded one — half-to-even on the exact value, or half-up (both accepted
    // where they differ). This is what separates 0.88 from 0.87 for a mean of exactly 0.875.
    {
        fn gcd(a: u128, b: u128) -> u128 {
            if b == 0 {
                a
            } else {
                gcd(b, a % b)
            }
        }
        let g = gcd(p, q).max(1);
        let (pr, qr) = (p / g, q / g);
        if exact_if_dyadic && qr.is_power_of_two() && qr <= (1u128 << 40) && pr < (1u128 << 52) {
            let exact = pr as f64 / qr as f64;
            let d = decimals as usize;
            let even = format!("{:.*}", d, exact);
            // half-up: add half a unit in integer arithmetic on the scaled value
            let scale = 10u128.pow(decimals);
            let up_scaled = (2 * pr * scale + qr) / (2 * qr);
            let up = up_scaled as f64 / scale as f64;
            let pv = printed.parse::<f64>().ok();
            let ev = even.parse::<f64>().ok();
            return pv.is_some() && (pv == ev || (pv.unwrap() - up).abs() < 0.1 / scale as f64);
        }
    }
    let exact = p as f64 / q as f64;
    let half = 0.5 * 10f64.powi(-(decimals as i32));
    (v - exact).abs() <= half * 1.000001 + exact.abs() * 1e-12 + 1e-12
}

pub struct StatsOpts {
    pub decimals: bool,
}

pub fn compare_stats(pfx: &str, ex: &StatsExpect, x: &StatsObs, opts: &StatsOpts, st: &mut Stats) -> Vec<Violation> {
    let mut v = Vec::new();
    if let Some(why) = &ex.out_of_scope {
        st.abstain(&format!("stats: {}", why), 1);
        return v;
    }
    let mut bad = |what: &str, got: String, want: String| {
        v.push(viol(format!("{}/{}", pfx, what), format!("{}: report says {}, recomputation gives {}", what, got, want)));
    };
    if x.blocks != ex.blocks {
        bad("blocks", x.blocks.to_string(), ex.blocks.to_string());
    }
    if x.txs != ex.txs {
        bad("txs", x.txs.to_string(), ex.txs.to_string());
    }
    if x.inputs != ex.inputs {
        bad("inputs", x.inputs.to_string(), ex.inputs.to_string());
    }
    if x.outputs != ex.outputs {
        bad("outputs", x.outputs.to_string(), ex.outputs.to_string());
    }
    if x.fees_units as u128 != ex.fees {
        bad("fees", x.fees_units.to_string(), ex.fees.to_string());
    }
    if x.volume_units as u128 != ex.volume {
        bad("volume", x.volume_units.to_string(), ex.volume.to_string());
    }
    if (x.biggest_value_units as u128, x.biggest_value_height, x.biggest_value_txid.as_str()) != (ex.biggest_value.0, ex.biggest_value.1, ex.biggest_value.2.as_str()) {
        bad("biggest-value-tx", format!("{} @{} {}", x.biggest_value_units, x.biggest_value_height, x.biggest_value_txid), format!("{:?}", ex.biggest_value));
    }
    if (x.biggest_size, x.biggest_size_height, x.biggest_size_txid.as_str()) != (ex.biggest_size.0, ex.biggest_size.1, ex.biggest_size.2.as_str()) {
        bad("biggest-size-tx", format!("{} @{} {}", x.biggest_size, x.biggest_size_height, x.biggest_size_txid), format!("{:?}", ex.biggest_size));
    }
    // per-type counts
    let sum: u64 = x.types.values().map(|t| t.0).sum();
    if sum != ex.outputs {
        bad("type-counts-sum", sum.to_string(), ex.outputs.to_string());
    }
    if ex.unknown_types == 0 {
        let got: Vec<(&String, u64, u64, &String)> = x.types.iter().map(|(k, t)| (k, t.0, t.2, &t.3)).collect();
        let want: Vec<(&String, u64, u64, &String)> = ex.types.iter().map(|(k, t)| (k, t.0, t.1, &t.2)).collect();
        if got != want {
            bad("types", format!("{:?}", got), format!("{:?}", want));
        }
    } else {
        st.abstain("stats: script type unconstrained by the statement", ex.unknown_types);
        for (k, t) in &ex.types {
            let g = x.types.get(k).map(|t| t.0).unwrap_or(0);
            if g < t.0 || g > t.0 + ex.unknown_types {
                bad("types", format!("{}: {}", k, g), format!("{}..={}", t.0, t.0 + ex.unknown_types));
            }
        }
    }
    if opts.decimals {
        let d = |what: &str, printed: &str, p: u128, q: u128, dec: u32, v: &mut Vec<Violation>| {
            let mean = what.starts_with("avg-") && what != "avg-value-per-output";
            if !decimal_check(printed, p, q, dec, mean) {
                v.push(viol(format!("{}/{}", pfx, what), format!("{}: report prints {}, exact value is {}/{} = {:.10}", what, printed, p, q, if q > 0 { p as f64 / q as f64 } else { 0.0 })));
            }
        };
        d("fees-decimal", &x.fees_dec, ex.fees, 100_000_000, 8, &mut v);
        d("volume-decimal", &x.volume_dec, ex.volume, 100_000_000, 8, &mut v);
        d("biggest-value-decimal", &x.biggest_value_dec, ex.biggest_value.0, 100_000_000, 8, &mut v);
        d("avg-block-size", &x.avg_block_size, ex.sum_block_size, ex.blocks as u128 * 1024, 2, &mut v);
        if ex.n_gaps > 0 {
            d("avg-time-between-blocks", &x.avg_time, ex.sum_gaps, ex.n_gaps as u128 * 60, 2, &mut v);
        } else if x.avg_time.parse::<f64>().ok() != Some(0.0) {
            v.push(viol(format!("{}/avg-time-between-blocks", pfx), format!("no gaps in range but report prints {}", x.avg_time)));
        }
        d("avg-txs-per-block", &x.avg_txs, ex.txs as u128, ex.blocks as u128, 2, &mut v);
        d("avg-inputs-per-tx", &x.avg_inputs, ex.inputs as u128, ex.txs as u128, 2, &mut v);
        d("avg-outputs-per-tx", &x.avg_outputs, ex.outputs as u128, ex.txs as u128, 2, &mut v);
        d("avg-value-per-output", &x.avg_value, ex.volume, ex.outputs as u128 * 100_000_000, 2, &mut v);
        if ex.unknown_types == 0 {
            for (k, t) in &x.types {
                let share = t.1.trim_end_matches('%');
                if !decimal_ok(share, t.0 as u128 * 100, ex.outputs as u128, 2) {
                    v.push(viol(format!("{}/type-share", pfx), format!("{}: share printed {} for {}/{}", k, t.1, t.0, ex.outputs)));
                }
            }
        }
    }
    v
}

/// opreturn lines vs model: required lines in order; unconstrained outputs may add a line at their slot
pub fn compare_opreturn(pfx: &str, m: &Model, s: u64, e: u64, o: &RunOutcome, st: &mut Stats) -> Vec<Violation> {
    let (lines, optional) = m.opreturn(s, e);
    st.abstain("opreturn: OP_RETURN script that is not exactly one push", optional.len() as u64);
    let got: Vec<String> = o.opreturn_records();
    // walk: got must be `lines` with optional extra lines whose prefix matches an optional slot at that position
    let mut gi = 0usize;
    let mut oi = 0usize;
    for (li, want) in lines.iter().enumerate() {
        // optional slots before required line li
        while oi < optional.len() && optional[oi].0 <= li {
            if gi < got.len() && got[gi].starts_with(&optional[oi].1) && got[gi] != *want {
                gi += 1;
            }
            oi += 1;
        }
        if gi >= got.len() || got[gi] != *want {
            return vec![viol(
                format!("{}/opreturn-lines", pfx),
                format!("line {} of {}: expected {:?}, got {:?}", li, lines.len(), clip(want), got.get(gi).map(|s| clip(s))),
            )];
        }
        gi += 1;
    }
    while oi < optional.len() {
        if gi < got.len() && got[gi].starts_with(&optional[oi].1) {
            gi += 1;
        }
        oi += 1;
    }
    if gi != got.len() {
        return vec![viol(format!("{}/opreturn-lines", pfx), format!("unexpected line: {:?}", clip(&got[gi])))];
    }
    vec![]
}

fn clip(s: &str) -> String {
    if s.chars().count() > 200 {
        format!("{}…", s.chars().take(200).collect::<String>())
    } else {
        s.to_string()
    }
}

pub struct CmpOpts {
    pub addr: bool,
    pub decimals: bool,
}

/// Compare a successful run of any callback with the model for the range the run reports.
pub fn compare_with_model(pfx: &str, m: &Model, r: &RunSpec, o: &RunOutcome, opts: &CmpOpts, st: &mut Stats) -> Vec<Violation> {
    match r.callback.as_str() {
        "csvdump" => match compare_csvdump(pfx, m, o, opts.addr, st) {
            Ok(_) => vec![],
            Err(x) => vec![x],
        },
        "unspentcsvdump" => {
            let (s, e) = match range_of_files(o, "unspent") {
                Some(x) => x,
                None => return vec![viol(format!("{}/files-missing", pfx), "no unspent-*.csv")],
            };
            let (rows, tainted) = m.unspent_rows(s, e);
            if tainted {
                // rows of outpoints with an unconstrained address are neither required nor forbidden
                let u = m.utxo(s, e);
                st.abstain("unspent: row of an output whose address is unconstrained", u.unknown.len() as u64);
                let mut filtered = o.clone();
                for f in run_files(o, "unspent") {
                    let t = String::from_utf8_lossy(f.3).into_owned();
                    let keep: Vec<&str> = t
                        .lines()
                        .enumerate()
                        .filter(|(i, l)| {
                            if *i == 0 {
                                return true;
                            }
                            let mut c = l.split(';');
                            let key = (c.next().unwrap_or("").to_string(), c.next().and_then(|x| x.parse::<u32>().ok()).unwrap_or(u32::MAX));
                            !u.unknown.contains(&key)
                        })
                        .map(|(_, l)| l)
                        .collect();
                    let mut body = keep.join("\n");
                    body.push('\n');
                    filtered.dump.insert(f.2.clone(), body.into_bytes());
                }
                return match compare_rowset(pfx, "unspent", "txid;indexOut;height;value;address", &rows, &filtered) {
                    Ok(_) => vec![],
                    Err(x) => vec![x],
                };
            }
            match compare_rowset(pfx, "unspent", "txid;indexOut;height;value;address", &rows, o) {
                Ok(_) => vec![],
                Err(x) => vec![x],
            }
        }
        "balances" => {
            let (s, e) = match range_of_files(o, "balances") {
                Some(x) => x,
                None => return vec![viol(format!("{}/files-missing", pfx), "no balances-*.csv")],
            };
            let (rows, tainted) = m.balance_rows(s, e);
            if tainted {
                st.abstain("balances: address of an output unconstrained", 1);
                return vec![];
            }
            match compare_rowset(pfx, "balances", "address;balance", &rows, o) {
                Ok(_) => vec![],
                Err(x) => vec![x],
            }
        }
        "opreturn" => match reported_range(r, o) {
            Some((s, e)) => compare_opreturn(pfx, m, s, e, o, st),
            None => vec![viol(format!("{}/no-summary", pfx), "no 'Processed blocks up to height' line")],
        },
        "simplestats" => match (reported_range(r, o), parse_stats(&o.stdout_str())) {
            (Some((s, e)), Some(x)) => compare_stats(pfx, &m.stats(s, e), &x, &StatsOpts { decimals: opts.decimals }, st),
            _ => vec![viol(format!("{}/no-report", pfx), "no stats report on stdout")],
        },
        _ => vec![],
    }
}

/// normalised, order-insensitive-where-the-statement-is view of a run's result (for run-to-run comparison)
pub fn normalized_output(r: &RunSpec, o: &RunOutcome) -> Vec<String> {
    let mut out = vec![format!("exit={:?}", o.exit)];
    match r.callback.as_str() {
        "csvdump" => {
            for stem in ["blocks", "transactions", "tx_in", "tx_out"] {
                for f in run_files(o, stem) {
                    out.push(format!("{}:{}", f.2, String::from_utf8_lossy(f.3)));
                }
            }
        }
        "unspentcsvdump" | "balances" => {
            let stem = if r.callback == "balances" { "balances" } else { "unspent" };
            for f in run_files(o, stem) {
                let t = String::from_utf8_lossy(f.3).into_owned();
                let mut l: Vec<&str> = t.lines().collect();
                let head = if l.is_empty() { "" } else { l.remove(0) };
                l.sort();
                out.push(format!("{}:{}|{}", f.2, head, l.join("|")));
            }
        }
        "opreturn" => out.extend(o.plain_stdout_lines()),
        "simplestats" => {
            let s = o.stdout_str();
            if let Some(i) = s.find("SimpleStats:") {
                let rep = &s[i..];
                let (head, types) = match rep.find("Transaction Types:") {
                    Some(j) => (&rep[..j], &rep[j..]),
                    None => (rep, ""),
                };
                out.push(head.to_string());
                let mut blocks: Vec<String> = Vec::new();
                let tl: Vec<&str> = types.lines().skip(1).filter(|l| !l.trim().is_empty() && !is_log_line(l)).collect();
                for c in tl.chunks(2) {
                    blocks.push(c.join(" / "));
                }
                blocks.sort();
                out.extend(blocks);
            }
        }
        _ => {}
    }
    out
}
