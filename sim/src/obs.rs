//! Parsing of what the program reports (file names, summary lines, stats report).
use crate::exec::*;
use std::collections::BTreeMap;

/// final-named files `<stem>-<s>-<e>.csv` in a dump folder snapshot
pub fn final_files<'a>(dump: &'a BTreeMap<String, Vec<u8>>, stem: &str) -> Vec<(u64, u64, &'a String, &'a Vec<u8>)> {
    let mut v = Vec::new();
    for (n, c) in dump {
        if let Some(rest) = n.strip_prefix(&format!("{}-", stem)) {
            if let Some(mid) = rest.strip_suffix(".csv") {
                let mut it = mid.split('-');
                if let (Some(a), Some(b), None) = (it.next(), it.next(), it.next()) {
                    if let (Ok(a), Ok(b)) = (a.parse::<u64>(), b.parse::<u64>()) {
                        v.push((a, b, n, c));
                    }
                }
            }
        }
    }
    v
}

pub fn is_final_name(n: &str) -> bool {
    n.ends_with(".csv") && !n.ends_with(".tmp")
}

pub fn stems_of(callback: &str) -> &'static [&'static str] {
    match callback {
        "csvdump" => &["blocks", "transactions", "tx_in", "tx_out"],
        "unspentcsvdump" => &["unspent"],
        "balances" => &["balances"],
        _ => &[],
    }
}

/// files that are new or changed relative to the dump folder before the run
pub fn new_or_changed<'a>(o: &'a RunOutcome) -> Vec<&'a String> {
    o.dump.iter().filter(|(n, c)| o.dump_before.get(*n) != Some(*c)).map(|(n, _)| n).collect()
}

/// "Done. Processed blocks up to height N"
pub fn processed_upto(stdout: &str) -> Option<u64> {
    let key = "Processed blocks up to height ";
    let i = stdout.find(key)?;
    let rest = &stdout[i + key.len()..];
    rest.split_whitespace().next()?.parse().ok()
}

/// "Error at height N"
pub fn error_height(stderr: &str) -> Option<u64> {
    let key = "Error at height ";
    let i = stderr.find(key)?;
    let rest = &stderr[i + key.len()..];
    rest.split(':').next()?.trim().parse().ok()
}

/// csvdump summary: (transactions, inputs, outputs)
pub fn csv_summary(stdout: &str) -> Option<(u64, u64, u64)> {
    let g = |key: &str| -> Option<u64> {
        let i = stdout.find(key)?;
        stdout[i + key.len()..].split_whitespace().next()?.parse().ok()
    };
    Some((g("-> transactions:")?, g("-> inputs:")?, g("-> outputs:")?))
}

#[derive(Debug, Default, Clone)]
pub struct StatsObs {
    pub blocks: u64,
    pub txs: u64,
    pub inputs: u64,
    pub outputs: u64,
    pub fees_units: u64,
    pub fees_dec: String,
    pub volume_units: u64,
    pub volume_dec: String,
    pub biggest_value_units: u64,
    pub biggest_value_dec: String,
    pub biggest_value_height: u64,
    pub biggest_value_txid: String,
    pub biggest_size: u64,
    pub biggest_size_height: u64,
    pub biggest_size_txid: String,
    pub avg_block_size: String,
    pub avg_time: String,
    pub avg_txs: String,
    pub avg_inputs: String,
    pub avg_outputs: String,
    pub avg_value: String,
    /// label -> (count, share text, first height, first txid)
    pub types: BTreeMap<String, (u64, String, u64, String)>,
}

fn after<'a>(s: &'a str, key: &str) -> Option<&'a str> {
    s.find(key).map(|i| s[i + key.len()..].trim_start())
}
fn first_tok(s: &str) -> &str {
    s.split_whitespace().next().unwrap_or("")
}
fn units(s: &str) -> Option<(String, u64)> {
    // "12.34000000 (1234000000 units)"
    let dec = first_tok(s).to_string();
    let i = s.find('(')?;
    let u = s[i + 1..].split_whitespace().next()?.parse().ok()?;
    Some((dec, u))
}
fn seen(s: &str) -> Option<(u64, String)> {
    // "seen in block #12, txid: abcd"
    let i = s.find("block #")?;
    let r = &s[i + 7..];
    let h = r.split(',').next()?.trim().parse().ok()?;
    let j = r.find("txid: ")?;
    Some((h, first_tok(&r[j + 6..]).to_string()))
}

pub fn parse_stats(stdout: &str) -> Option<StatsObs> {
    let i = stdout.find("SimpleStats:")?;
    let s = &stdout[i..];
    let mut o = StatsObs::default();
    o.blocks = first_tok(after(s, "-> valid blocks:")?).parse().ok()?;
    o.txs = first_tok(after(s, "-> total transactions:")?).parse().ok()?;
    o.inputs = first_tok(after(s, "-> total tx inputs:")?).parse().ok()?;
    o.outputs = first_tok(after(s, "-> total tx outputs:")?).parse().ok()?;
    let (d, u) = units(after(s, "-> total tx fees:")?)?;
    o.fees_dec = d;
    o.fees_units = u;
    let (d, u) = units(after(s, "-> total volume:")?)?;
    o.volume_dec = d;
    o.volume_units = u;
    let bv = after(s, "-> biggest value tx:")?;
    let (d, u) = units(bv)?;
    o.biggest_value_dec = d;
    o.biggest_value_units = u;
    let (h, t) = seen(bv)?;
    o.biggest_value_height = h;
    o.biggest_value_txid = t;
    let bs = after(s, "-> biggest size tx:")?;
    o.biggest_size = first_tok(bs).parse().ok()?;
    let (h, t) = seen(bs)?;
    o.biggest_size_height = h;
    o.biggest_size_txid = t;
    o.avg_block_size = first_tok(after(s, "-> avg block size:")?).to_string();
    o.avg_time = first_tok(after(s, "-> avg time between blocks:")?).to_string();
    o.avg_txs = first_tok(after(s, "-> avg txs per block:")?).to_string();
    o.avg_inputs = first_tok(after(s, "-> avg inputs per tx:")?).to_string();
    o.avg_outputs = first_tok(after(s, "-> avg outputs per tx:")?).to_string();
    o.avg_value = first_tok(after(s, "-> avg value per output:")?).to_string();
    let tt = after(s, "Transaction Types:")?;
    let lines: Vec<&str> = tt.lines().collect();
    let mut k = 0;
    while k < lines.len() {
        let l = lines[k].trim();
        if let Some(r) = l.strip_prefix("-> ") {
            // `<label>: <count> (<share>%)` — label may contain ':' (ScriptError: …) and quotes
            if let Some(p) = r.rfind(": ") {
                let label = r[..p].to_string();
                let rest = &r[p + 2..];
                let count: u64 = first_tok(rest).parse().ok()?;
                let share = rest.split('(').nth(1).unwrap_or("").trim_end_matches(')').to_string();
                let mut fh = 0;
                let mut ft = String::new();
                if k + 1 < lines.len() {
                    if let Some((h, t)) = seen(lines[k + 1]) {
                        fh = h;
                        ft = t;
                    }
                }
                o.types.insert(label, (count, share, fh, ft));
            }
        }
        k += 1;
    }
    Some(o)
}
