#!/bin/bash
# setup_cmd: build driver + SUT offline from files on disk, run the model self-test.
set -e
cd "$(dirname "$0")"
./check build
./check selftest
echo "setup ok"
