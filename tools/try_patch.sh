#!/bin/bash
# usage: tools/try_patch.sh <patch.diff> <ID> [<ID>...]   — apply to the repo, run quick checks, revert.
# prints one line per check: <patch> <ID> exit=<code>. Repo = $RBPSIM_REPO or /repo.
set -u
P="$(readlink -f "$1")"; shift
REPO="${RBPSIM_REPO:-/repo}"
VERIF="$(cd "$(dirname "$0")/.." && pwd)"
cd "$REPO" || exit 2
if ! git diff --quiet; then echo "repo dirty"; exit 2; fi
if ! git apply "$P"; then echo "$(basename $P): patch does not apply"; exit 2; fi
for id in "$@"; do
  out=$(cd "$VERIF" && RBPSIM_REPO="$REPO" RBPSIM_NO_SHRINK=${NO_SHRINK:-} ./check "$id" quick 2>&1)
  code=$?
  echo "$(basename $(dirname $P))/$(basename $P) $id exit=$code $(echo "$out" | grep -E '^violation class' | head -3 | cut -c1-220 | tr '\n' ' ')"
  [ $code -eq 2 ] && echo "$out" | tail -5
done
git -C "$REPO" checkout -- . ; git -C "$REPO" clean -fdq src
