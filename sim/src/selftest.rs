//! Model self-test: the reference model must reproduce real-chain literals.
use crate::desc::*;
use crate::scriptref::*;
use crate::ser::*;
use crate::util::*;

fn genesis(coin: &str) -> Option<BlockDesc> {
    let std_ss = |text: &[u8], bits_push: &[u8], extra: &[u8]| {
        let mut s = bits_push.to_vec();
        s.extend_from_slice(extra);
        s.extend(push(text));
        s
    };
    let btc_key = unhex("04678afdb0fe5548271967f1a67130b7105cd6a828e03909a67962e0ea1f61deb649f6bc3f4cef38c4f35504e51ec112de5c384df7ba0b8d578a4c702b6bf11d5f").unwrap();
    let ltc_key = unhex("040184710fa689ad5023690c80f3a49c8f13f8d45b8c857fbcbc8bc4a8e4d3eb4b10f4d4604fa08dce601aaf0f470216fe1b51850b4acf21b179c45070ac7b03a9").unwrap();
    let nmc_key = unhex("04b620369050cd899ffbbc4e8ee51e8c4534a855bb463439d63d235d4779685d8b6f4870a238cf365ac94fa13ef9a2a22cd99d0d5ee86dcabcafce36c7acf43ce5").unwrap();
    let myr_key = unhex("04e941763c7750969e751bee1ffbe96a651a0feb131db046546c219ea40bff40b95077dc9ba1c05af991588772d8daabbda57386c068fb9bc7477c5e28702d5eb9").unwrap();
    let times = b"The Times 03/Jan/2009 Chancellor on brink of second bailout for banks";
    let mut version = 1u32;
    let (time, bits, nonce, ss, value, key): (u32, u32, u32, Vec<u8>, u64, Vec<u8>) = match coin {
        "myriadcoin" => {
            version = 2;
            (1393164995, 0x1e0fffff, 2092903596, std_ss(b"2014-02-23 FT - G20 aims to add $2tn to global economy", &unhex("04ffff001d").unwrap(), &unhex("0104").unwrap()), 1000_0000_0000, myr_key)
        }
        "unobtanium" => (
            1375548986,
            0x1e0fffff,
            1211565,
            std_ss(b"San Francisco plaza evacuated after suspicious package is found", &unhex("04ffff001d").unwrap(), &unhex("0104").unwrap()),
            1_0000_0000,
            btc_key,
        ),
        "bitcoin" => (1231006505, 0x1d00ffff, 2083236893, std_ss(times, &unhex("04ffff001d").unwrap(), &unhex("0104").unwrap()), 50_0000_0000, btc_key),
        "testnet3" => (1296688602, 0x1d00ffff, 414098458, std_ss(times, &unhex("04ffff001d").unwrap(), &unhex("0104").unwrap()), 50_0000_0000, btc_key),
        "litecoin" => (
            1317972665,
            0x1e0ffff0,
            2084524493,
            std_ss("NY Times 05/Oct/2011 Steve Jobs, Apple\u{2019}s Visionary, Dies at 56".as_bytes(), &unhex("04ffff001d").unwrap(), &unhex("0104").unwrap()),
            50_0000_0000,
            ltc_key,
        ),
        "dogecoin" => (1386325540, 0x1e0ffff0, 99943, std_ss(b"Nintondo", &unhex("04ffff001d").unwrap(), &unhex("0104").unwrap()), 88_0000_0000, ltc_key),
        "namecoin" => (
            1303000001,
            0x1c007fff,
            0xa21ea192,
            std_ss(b"... choose what comes next.  Lives of your own, or a return to chains. -- V", &unhex("04ff7f001c").unwrap(), &unhex("020a02").unwrap()),
            50_0000_0000,
            nmc_key,
        ),
        _ => return None,
    };
    Some(BlockDesc {
        version,
        prev: Some(Bytes(vec![0; 32])),
        merkle: None,
        time,
        bits,
        nonce,
        auxpow: None,
        txs: vec![TxDesc {
            version: 1,
            segwit: false,
            inputs: vec![InDesc {
                prev_txid: Bytes(vec![0; 32]),
                prev_index: 0xffff_ffff,
                script_sig: Bytes(ss),
                sequence: 0xffff_ffff,
                witness: vec![],
            }],
            outputs: vec![OutDesc {
                value,
                script: Bytes(p2pk(&key)),
            }],
            locktime: 0,
            cs_width: 0,
        }],
    })
}

/// genesis block of a coin if the model can rebuild it (hash-verified)
pub fn genesis_block(coin: &str) -> Option<BlockDesc> {
    let g = genesis(coin)?;
    let bb = build_block(&g, [0; 32]);
    if hex_rev(&bb.hash) == coin_params(coin).genesis_hash_display {
        Some(g)
    } else {
        None
    }
}

pub fn run() -> i32 {
    let mut bad = 0;
    let mut check = |name: &str, ok: bool| {
        if !ok {
            println!("selftest FAILED: {}", name);
            bad += 1;
        }
    };
    for c in ["bitcoin", "testnet3", "litecoin", "dogecoin", "namecoin", "myriadcoin", "unobtanium"] {
        check(&format!("genesis {}", c), genesis_block(c).is_some());
    }
    // bitcoin genesis: merkle root and txid, as asserted in the repository's tests
    let g = genesis("bitcoin").unwrap();
    let bb = build_block(&g, [0; 32]);
    check("bitcoin genesis merkle", hex_rev(&bb.merkle) == "4a5e1e4baab89f3a32518a88c31bc87f618f76673e2cc77ab2127b7afdeda33b");
    check("bitcoin genesis size", bb.bytes.len() == 285);
    // script literals used by the repository's unit tests
    let r = eval("bitcoin", &unhex("76a91412ab8dc588ca9d5787dde7eb29569da63c3a238c88ac").unwrap());
    check("p2pkh literal", r.ty == Ty::P2PKH && r.addr == AddrV::Some("12higDjoCCNXSA95xZMWUdPvXNmkAduhWv".into()));
    let r = eval("bitcoin", &bb_script_genesis());
    check("p2pk genesis address", r.ty == Ty::P2PK && r.addr == AddrV::Some("1A1zP1eP5QGefi2DMPTfTL5SLmv7DivfNa".into()));
    let r = eval("bitcoin", &unhex("0014751e76e8199196d454941c45d1b3a323f1433bd6").unwrap());
    check("bip173 p2wpkh", r.ty == Ty::P2WPKH && r.addr == AddrV::Some("bc1qw508d6qejxtdg4y5r3zarvary0c5xw7kv8f3t4".into()));
    let r = eval("testnet3", &unhex("00201863143c14c5166804bd19203356da136c985678cd4d27a1b8c6329604903262").unwrap());
    check("bip173 p2wsh testnet", r.ty == Ty::P2WSH && r.addr == AddrV::Some("tb1qrp33g0q5c5txsp9arysrx4k6zdkfs4nce4xj0gdcccefvpysxf3q0sl5k7".into()));
    let r = eval("bitcoin", &unhex("5128751e76e8199196d454941c45d1b3a323f1433bd6751e76e8199196d454941c45d1b3a323f1433bd6").unwrap());
    check("bip350 v1 40-byte", r.ty == Ty::WitnessProgram && r.addr == AddrV::Some("bc1pw508d6qejxtdg4y5r3zarvary0c5xw7kw508d6qejxtdg4y5r3zarvary0c5xw7kt5nd6y".into()));
    let r = eval("bitcoin", &unhex("512079be667ef9dcbbac55a06295ce870b07029bfcdb2dce28d959f2815b16f81798").unwrap());
    check("bip350 p2tr", r.ty == Ty::P2TR && r.addr == AddrV::Some("bc1p0xlxvlhemja6c4dqv22uapctqupfhlxm9h8z3k2e72q4k9hcz7vqzk5jj0".into()));
    // litecoin / dogecoin coinbase literals from custom.rs tests
    let r = eval("litecoin", &bb_script_ltc());
    check("litecoin p2pk", r.ty == Ty::P2PK && matches!(&r.addr, AddrV::Some(a) if a.starts_with('L')));
    // base58 round trip, segwit decode
    check("base58check decode", base58check_decode("12higDjoCCNXSA95xZMWUdPvXNmkAduhWv").map(|x| x.0) == Some(0));
    check("segwit decode", segwit_decode("bc1qw508d6qejxtdg4y5r3zarvary0c5xw7kv8f3t4").map(|x| x.1) == Some(0));
    // the partial txid collisions used by the UTXO generators
    {
        use crate::collide::*;
        let (a, b) = (txid_of(&collision_tx(HEAD_PAIR.0)), txid_of(&collision_tx(HEAD_PAIR.1)));
        check("txid head collision", a != b && a[..8] == b[..8]);
        let (a, b) = (txid_of(&collision_tx(TAIL_PAIR.0)), txid_of(&collision_tx(TAIL_PAIR.1)));
        check("txid tail collision", a != b && a[24..] == b[24..]);
    }
    // varint
    check("core varint", core_varint(16512) == vec![0x80, 0x80, 0x00] && core_varint(128) == vec![0x80, 0x00]);
    if bad == 0 {
        0
    } else {
        2
    }
}

fn bb_script_genesis() -> Vec<u8> {
    genesis("bitcoin").unwrap().txs[0].outputs[0].script.0.clone()
}
fn bb_script_ltc() -> Vec<u8> {
    genesis("litecoin").unwrap().txs[0].outputs[0].script.0.clone()
}
