//! C05 — Bitcoin/testnet3: every output script gets the reference type and address.
//! C06 — fork coins: push tokenisation and templates.
//! Thousands of scripts are packed as the outputs of a few transactions, so one run judges
//! thousands of scripts and the parallel output evaluation is really split across workers.
use crate::check::*;
use crate::desc::*;
use crate::exec::*;
use crate::gen::*;
use crate::obs::*;
use crate::oracle::*;
use crate::render::Model;
use crate::scriptgen::*;
use crate::scriptref::{self, AddrV, Ty};
use crate::util::*;
use std::collections::BTreeMap;

pub struct C05;
pub struct C06;

pub fn script_world(prop: &str, coin: &str, scripts: Vec<Vec<u8>>, rng: &mut Rng) -> Scenario {
    let mut scn = new_scenario(prop, "scripts", coin);
    // outputs per transaction: mostly 50..600, sometimes exactly at / next to a power of two (batching edges)
    let per_tx = if rng.chance(1, 4) { *rng.pick(&[255usize, 256, 257, 511, 512, 513, 1023, 1024, 1024, 1025, 2047, 2048, 2049, 4096]) } else { rng.usize(50, 600) };
    let mut txs = vec![];
    for (k, chunk) in scripts.chunks(per_tx).enumerate() {
        let input = if k == 0 {
            coinbase_input(0, rng)
        } else {
            InDesc {
                prev_txid: Bytes(rng.bytes(32)),
                prev_index: 0,
                script_sig: Bytes(vec![]),
                sequence: 0xffff_ffff,
                witness: vec![],
            }
        };
        txs.push(TxDesc {
            version: 1,
            segwit: false,
            inputs: vec![input],
            outputs: chunk
                .iter()
                .enumerate()
                .map(|(j, s)| OutDesc {
                    value: 1000 + j as u64,
                    script: Bytes(s.clone()),
                })
                .collect(),
            locktime: k as u32,
            cs_width: 0,
        });
    }
    // first output of the coinbase must exist (simplestats reads it): guaranteed by chunks>=1
    let nblocks = rng.usize(1, 2).min(txs.len());
    let split = txs.len() / nblocks;
    for b in 0..nblocks {
        let part: Vec<TxDesc> = if b + 1 == nblocks { txs.drain(..).collect() } else { txs.drain(..split.max(1)).collect() };
        let mut part = part;
        if b > 0 {
            part.insert(
                0,
                TxDesc {
                    version: 1,
                    segwit: false,
                    inputs: vec![coinbase_input(b as u64, rng)],
                    outputs: vec![OutDesc {
                        value: 5,
                        script: Bytes(crate::ser::p2pkh(&rng.bytes(20))),
                    }],
                    locktime: 0,
                    cs_width: 0,
                },
            );
        }
        scn.chain.push(BlockDesc {
            version: 1,
            prev: None,
            merkle: None,
            time: 1_400_000_000 + b as u32 * 600,
            bits: 0x1d00ffff,
            nonce: b as u32,
            auxpow: None,
            txs: part,
        });
    }
    scn.layouts = vec![single_file_layout(scn.chain.len())];
    scn.index = index_opts(rng);
    // where the data lives and whether the default coin is spelled out say nothing about the address format
    let alias = if rng.chance(1, 3) { Some(rng.pick(&[".bitcoin", "testnet3", ".litecoin", "dogecoin", ".namecoin", "regtest"]).to_string()) } else { None };
    let omit_coin = coin == "bitcoin" && rng.chance(1, 3);
    for cb in ["csvdump", "simplestats"] {
        let mut r = RunSpec::new(cb);
        r.dir_alias = alias.clone();
        r.omit_coin = omit_coin;
        r.threads = pick_threads(rng);
        if rng.chance(1, 3) {
            r.plan.delay = Some((rng.pick(&["asc", "desc", "random"]).to_string(), rng.next() >> 1, rng.range(5, 30)));
        }
        if rng.chance(1, 3) {
            r.plan.chunk_blk = random_chunks(rng);
        }
        scn.runs.push(r);
    }
    scn
}

/// judge address column (run 0 = csvdump) and type counts (run 1 = simplestats)
fn judge_scripts(pfx: &str, scn: &Scenario, m: &Model, outs: &[RunOutcome], st: &mut Stats, any_addr_check: bool) -> Vec<Violation> {
    let mut v = Vec::new();
    for (r, o) in scn.runs.iter().zip(outs.iter()) {
        if !o.exit.ok() {
            v.push(viol(format!("{}/run-failed", pfx), format!("{} exit {:?}: {}", r.callback, o.exit, super::c01::tail(&o.stderr_str()))));
        }
    }
    if !v.is_empty() {
        return v;
    }
    let csv_i = scn.runs.iter().position(|r| r.callback == "csvdump");
    let st_i = scn.runs.iter().position(|r| r.callback == "simplestats");
    // ---- addresses, row by row
    let empty: Vec<u8> = vec![];
    let f = match csv_i {
        Some(i) => run_files(&outs[i], "tx_out"),
        None => vec![],
    };
    if csv_i.is_some() && f.len() != 1 {
        return vec![viol(format!("{}/files-missing", pfx), "tx_out file missing")];
    }
    let no_csv = csv_i.is_none();
    let f = if no_csv { vec![(0u64, 0u64, &scn.coin, &empty)] } else { f };
    let text = String::from_utf8_lossy(f[0].3).into_owned();
    let rows: Vec<&str> = text.lines().collect();
    let mut k = 0usize;
    let mut unknown_addr = 0u64;
    let mut reported = 0u64;
'outer: for (bi, b) in scn.chain.iter().enumerate() {
        if no_csv {
            break;
        }
        for (ti, t) in b.txs.iter().enumerate() {
            for (oi, out) in t.outputs.iter().enumerate() {
                let row = match rows.get(k) {
                    Some(r) => *r,
                    None => {
                        v.push(viol(format!("{}/rows-missing", pfx), format!("tx_out has {} rows, expected more", rows.len())));
                        break 'outer;
                    }
                };
                k += 1;
                let got = row.rsplit(';').next().unwrap_or("");
                let vd = m.verdict(bi, ti, oi);
                if !got.is_empty() {
                    reported += 1;
                }
                match &vd.addr {
                    AddrV::Some(a) => {
                        if got != a {
                            v.push(viol(
                                format!("{}/address/{}", pfx, vd.ty.label()),
                                format!("script {} ({}): reference address {}, reported {:?}", hex(&out.script.0), vd.ty.label(), a, got),
                            ));
                            break 'outer;
                        }
                    }
                    AddrV::None => {
                        if !got.is_empty() {
                            v.push(viol(
                                format!("{}/address-for-addressless/{}", pfx, vd.ty.label()),
                                format!("script {} ({}) must have no address, reported {}", hex(&out.script.0), vd.ty.label(), got),
                            ));
                            break 'outer;
                        }
                    }
                    AddrV::Unknown => unknown_addr += 1,
                }
                if any_addr_check && !got.is_empty() {
                    if let Err(why) = scriptref::check_reported_address_bitcoin(&scn.coin, &out.script.0, got) {
                        v.push(viol(format!("{}/bogus-address", pfx), format!("script {}: reported address {} — {}", hex(&out.script.0), got, why)));
                        break 'outer;
                    }
                }
            }
        }
    }
    st.abstain("address unconstrained by the statement", unknown_addr);
    st.probe_n("addresses_reported", reported);
    // ---- type counts
    let st_i = match st_i {
        Some(i) => i,
        None => return v,
    };
    if let Some(x) = parse_stats(&outs[st_i].stdout_str()) {
        for k in x.types.keys() {
            if k.contains("Error") {
                v.push(viol(format!("{}/error-type", pfx), format!("script evaluation failed: stats list type {:?}", k)));
            }
        }
        let ex = m.stats(0, m.tip());
        st.abstain("type unconstrained by the statement", ex.unknown_types);
        let mut labels: Vec<&String> = ex.types.keys().chain(x.types.keys()).collect();
        labels.sort();
        labels.dedup();
        for l in labels {
            let want = ex.types.get(l).map(|t| t.0).unwrap_or(0);
            let got = x.types.get(l).map(|t| t.0).unwrap_or(0);
            if got < want || got > want + ex.unknown_types {
                v.push(viol(
                    format!("{}/type-count/{}", pfx, l),
                    format!("type {}: reference count {} (+ up to {} unconstrained), reported {}", l, want, ex.unknown_types, got),
                ));
                break;
            }
        }
        if ex.unknown_types == 0 {
            for (l, t) in &ex.types {
                if let Some(g) = x.types.get(l) {
                    if (g.2, g.3.as_str()) != (t.1, t.2.as_str()) {
                        v.push(viol(format!("{}/first-occurrence", pfx), format!("type {}: first occurrence reported in block {} tx {}, reference {} {}", l, g.2, g.3, t.1, t.2)));
                    }
                }
            }
        }
    } else {
        v.push(viol(format!("{}/no-report", pfx), "no stats report"));
    }
    v
}

fn type_probes(scn: &Scenario, m: &Model, st: &mut Stats) {
    let mut seen: BTreeMap<Ty, u64> = BTreeMap::new();
    for (bi, b) in scn.chain.iter().enumerate() {
        for (ti, t) in b.txs.iter().enumerate() {
            for oi in 0..t.outputs.len() {
                *seen.entry(m.verdict(bi, ti, oi).ty).or_insert(0) += 1;
            }
        }
    }
    for (t, n) in seen {
        st.probe_n(&format!("ref_type_{:?}", t), n);
    }
}

impl Prop for C06 {
    fn id(&self) -> &'static str {
        "C06"
    }
    fn run_cap_secs(&self, tier: Tier) -> u64 {
        // the world with 64 KiB hash slots spends seconds in Base58
        if tier == Tier::Quick {
            90
        } else {
            180
        }
    }
    fn rule(&self) -> String {
        "per scenario 300..3000 output scripts on one of the six fork coins, packed as outputs of a few transactions: every template (P2PKH, P2PK, P2SH, OP_RETURN-data, 2-of-3 multisig) with every push form that can carry each slot (direct, PUSHDATA1/2/4), payload sizes incl. 75/76/255/256/520, zero-length pushes in every form, truncations by 1..n bytes, PUSHDATA lengths past the end (incl. 2^31, 2^32-1), no-op insertions at token boundaries, one-byte substitution/deletion/extension, all leading opcodes, random token sequences, random bytes, CLTV/CSV scripts (abstained on). csvdump gives the address per script, simplestats the per-type counts and first occurrences; both compared with the reference tokeniser/typer; worker count, delays and read chunking are perturbed. Non-trivial = scenario contains a PUSHDATA-carried template slot; distinct by scenario hash.".into()
    }
    fn items(&self, tier: Tier) -> u64 {
        if tier == Tier::Quick {
            240
        } else {
            6000
        }
    }
    fn required_probes(&self, _tier: Tier) -> Vec<&'static str> {
        vec!["ref_type_P2PKH", "ref_type_P2PK", "ref_type_P2SH", "ref_type_OpReturn", "ref_type_MultiSig", "ref_type_NotRecognised", "pushdata_slot", "hash_slot_of_64k_bytes"]
    }
    fn explore(&self, item: u64, rng: &mut Rng, _tier: Tier, h: &mut Harness) -> Result<(), String> {
        let coin = COINS[2 + (item % 6) as usize];
        let n = rng.usize(300, 3000);
        let mut scripts = fork_scripts(rng, n);
        if rng.coin() {
            scripts.retain(|s| scriptref::eval(coin, s).ty != Ty::Unknown);
            h.stats.probe("world_without_abstentions");
        }
        if item == 7 {
            // one world with hash slots beyond 64 KiB (PUSHDATA4): the address is the Base58Check of whatever
            // was pushed. Base58 is quadratic — seconds per script — hence one world, two scripts.
            scripts.truncate(40);
            let mut a = vec![0x76, 0xa9];
            a.extend(pf(&rng.bytes(65_536), 4));
            a.extend_from_slice(&[0x88, 0xac]);
            let mut b = vec![0xa9];
            b.extend(pf(&rng.bytes(65_535), 2));
            b.push(0x87);
            scripts.push(a);
            scripts.push(b);
            h.stats.probe("hash_slot_of_64k_bytes");
        }
        let mut scn = script_world("C06", coin, scripts, rng);
        h.check(&mut scn)?;
        Ok(())
    }
    fn nontrivial(&self, scn: &Scenario, outs: &[RunOutcome]) -> bool {
        outs.iter().all(|o| o.exit.ok()) && scn.chain.iter().flat_map(|b| b.txs.iter()).flat_map(|t| t.outputs.iter()).any(|o| o.script.0.iter().any(|b| (0x4c..=0x4e).contains(b)))
    }
    fn judge(&self, scn: &Scenario, m: &Model, outs: &[RunOutcome], st: &mut Stats) -> Vec<Violation> {
        type_probes(scn, m, st);
        // a template slot carried by PUSHDATA1/2/4 and recognised by the reference
        for (bi, b) in scn.chain.iter().enumerate() {
            for (ti, t) in b.txs.iter().enumerate() {
                for (oi, o) in t.outputs.iter().enumerate() {
                    let ty = m.verdict(bi, ti, oi).ty;
                    if !matches!(ty, Ty::NotRecognised | Ty::Unknown) && o.script.0.iter().take(4).any(|b| (0x4c..=0x4e).contains(b)) {
                        st.probe("pushdata_slot");
                    }
                }
            }
        }
        judge_scripts("C06", scn, m, outs, st, false)
    }
}

/// Enumerated short scripts, 16384 per world. Worlds 0..4: every script of length 0, 1 and 2. Then for
/// each of the 17 witness-version opcodes (OP_0, OP_1..OP_16) four worlds with every 2-byte program
/// `<ver> 02 xx yy` (quick: OP_1 only — the only version with a standard 2-byte program, pay-to-anchor).
fn enum_short_world(w: u64) -> Vec<Vec<u8>> {
    const PER: u64 = 16384;
    let mut out = Vec::with_capacity(PER as usize);
    if w < 5 {
        for k in w * PER..((w + 1) * PER).min(65793) {
            out.push(match k {
                0 => vec![],
                1..=256 => vec![(k - 1) as u8],
                _ => vec![((k - 257) >> 8) as u8, (k - 257) as u8],
            });
        }
        return out;
    }
    let w = w - 5;
    // order of versions: OP_1 first
    let vers: [u8; 17] = [0x51, 0x00, 0x52, 0x53, 0x54, 0x55, 0x56, 0x57, 0x58, 0x59, 0x5a, 0x5b, 0x5c, 0x5d, 0x5e, 0x5f, 0x60];
    let ver = vers[(w / 4) as usize];
    for k in (w % 4) * PER..(w % 4 + 1) * PER {
        out.push(vec![ver, 2, (k >> 8) as u8, k as u8]);
    }
    out
}
fn enum_short_worlds(tier: Tier) -> u64 {
    if tier == Tier::Quick {
        5 + 4
    } else {
        5 + 4 * 17
    }
}

impl Prop for C05 {
    fn id(&self) -> &'static str {
        "C05"
    }
    fn rule(&self) -> String {
        "per scenario 300..3000 output scripts on bitcoin or testnet3: every canonical template with random payloads (P2PK 33/65, P2PKH, P2SH, P2WPKH, P2WSH, P2TR, m-of-n multisig, OP_RETURN), one-byte substitution/deletion/truncation/extension of instances, all 256 leading opcodes with random tails, witness versions 0..16 x program lengths 1..42, multisig grid 0<=m,n<=16 with n, n+-1 keys, random token sequences, random bytes up to 10 KB. Oracle: (1) reference type (aggregate counts + first occurrences from simplestats) and address (per row from csvdump, own Base58Check/Bech32/Bech32m encoders) where the reference is certain; (2) every reported address, for any script, has the network prefix, a valid checksum under the reference decoder and decodes to the hash/program at the template position; (3) address-less classes report no address. Abstentions (statement silent) are counted. Non-trivial = all runs exit 0 and >=1 address reported; distinct by scenario hash.".into()
    }
    fn items(&self, tier: Tier) -> u64 {
        enum_short_worlds(tier) + if tier == Tier::Quick { 240 } else { 6000 }
    }
    fn exhaustive_note(&self) -> Option<String> {
        Some("every script of length 0..2 and every 2-byte witness program of version 1 (thorough: of all 17 versions) is enumerated completely on alternating networks; everything else is sampled".into())
    }
    fn required_probes(&self, _tier: Tier) -> Vec<&'static str> {
        vec!["ref_type_P2PKH", "ref_type_P2PK", "ref_type_P2SH", "ref_type_P2WPKH", "ref_type_P2WSH", "ref_type_P2TR", "ref_type_WitnessProgram", "ref_type_MultiSig", "ref_type_OpReturn", "ref_type_Unspendable", "ref_type_NotRecognised"]
    }
    fn explore(&self, item: u64, rng: &mut Rng, tier: Tier, h: &mut Harness) -> Result<(), String> {
        let coin = COINS[(item % 2) as usize];
        if item < enum_short_worlds(tier) {
            // seed parity swaps the network a world is built for
            let coin = COINS[((item + h.seed) % 2) as usize];
            let mut scn = script_world("C05", coin, enum_short_world(item), rng);
            scn.family = "enum-short".into();
            h.stats.probe("enumerated_short_scripts_world");
            h.check(&mut scn)?;
            return Ok(());
        }
        let n = rng.usize(300, 3000);
        let mut scripts = bitcoin_scripts(rng, n);
        // the type counts are exact only in a world without abstentions (each abstained script is one unit of
        // slack in every count): half of the worlds are built from scripts the reference is certain about
        if rng.coin() {
            scripts.retain(|s| scriptref::eval(coin, s).ty != Ty::Unknown);
            h.stats.probe("world_without_abstentions");
        }
        let mut scn = script_world("C05", coin, scripts, rng);
        h.check(&mut scn)?;
        Ok(())
    }
    fn nontrivial(&self, _scn: &Scenario, outs: &[RunOutcome]) -> bool {
        outs.iter().all(|o| o.exit.ok()) && outs.iter().flat_map(|o| run_files(o, "tx_out")).any(|f| f.3.windows(2).any(|w| w[0] != b';' && w[1] == b'\n'))
    }
    fn judge(&self, scn: &Scenario, m: &Model, outs: &[RunOutcome], st: &mut Stats) -> Vec<Violation> {
        type_probes(scn, m, st);
        judge_scripts("C05", scn, m, outs, st, true)
    }
}
