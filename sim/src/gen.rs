//! Generator helpers shared by the properties.
use crate::desc::*;
use crate::ser::*;
use crate::util::*;

pub fn marker_addr_hash(h: u64, k: u64) -> [u8; 20] {
    let mut b = b"marker".to_vec();
    b.extend_from_slice(&h.to_le_bytes());
    b.extend_from_slice(&k.to_le_bytes());
    let d = sha256_(&b);
    d[..20].try_into().unwrap()
}

pub fn coinbase_input(h: u64, rng: &mut Rng) -> InDesc {
    let mut ss = push(&h.to_le_bytes()[..((64 - h.leading_zeros() as usize + 7) / 8).max(1)]);
    ss.extend(push(&rng.bytes(4)));
    InDesc {
        prev_txid: Bytes(vec![0; 32]),
        prev_index: 0xffff_ffff,
        script_sig: Bytes(ss),
        sequence: h as u32,
        witness: vec![],
    }
}

/// A block whose every row in every output reveals its height:
/// locktime = h, sequence = h, value = h*1000+k, OP_RETURN "h<h>".
pub fn marker_block(h: u64, n_extra_tx: usize, rng: &mut Rng) -> BlockDesc {
    let mut txs = Vec::new();
    txs.push(TxDesc {
        version: 1,
        segwit: false,
        inputs: vec![coinbase_input(h, rng)],
        outputs: vec![
            OutDesc {
                value: h * 1000 + 1,
                script: Bytes(p2pkh(&marker_addr_hash(h, 0))),
            },
            OutDesc {
                value: h * 1000,
                script: Bytes(op_return(format!("h{}", h).as_bytes())),
            },
        ],
        locktime: h as u32,
        cs_width: 0,
    });
    for k in 0..n_extra_tx {
        txs.push(TxDesc {
            version: 2,
            segwit: false,
            inputs: vec![InDesc {
                prev_txid: Bytes(rng.bytes(32)),
                prev_index: rng.below(4) as u32,
                script_sig: Bytes(rng.bytes_range(0, 20)),
                sequence: h as u32,
                witness: vec![],
            }],
            outputs: vec![OutDesc {
                value: h * 1000 + 2 + k as u64,
                script: Bytes(p2pkh(&marker_addr_hash(h, 1 + k as u64))),
            }],
            locktime: h as u32,
            cs_width: 0,
        });
    }
    BlockDesc {
        version: 1,
        prev: None,
        merkle: None,
        time: 1_300_000_000u32.wrapping_add((h as u32).wrapping_mul(600)).max(1),
        bits: 0x1d00ffff,
        nonce: rng.next() as u32,
        auxpow: None,
        txs,
    }
}

pub fn marker_chain(base: u64, n: usize, rng: &mut Rng) -> Vec<BlockDesc> {
    (0..n).map(|i| marker_block(base + i as u64, rng.usize(0, 2), rng)).collect()
}

/// all active blocks in order in one file `blk00000.dat`
pub fn single_file_layout(n: usize) -> Layout {
    Layout {
        files: vec![BlkFileDesc {
            number: 0,
            width: 5,
            segs: (0..n).map(|i| Seg::Active { i }).collect(),
            symlink: false,
        }],
        xor_key: None,
        magic_mode: 0,
        xor_symlink: false,
        link_chain: false,
        side_xor: None,
        extra_files: vec![],
    }
}

/// blocks spread over 1..=max_files files in random physical order, with optional junk
pub fn random_layout(n: usize, max_files: usize, junk: bool, rng: &mut Rng) -> Layout {
    let nf = rng.usize(1, max_files.max(1)).min(n.max(1));
    let mut order: Vec<usize> = (0..n).collect();
    if rng.chance(2, 3) {
        rng.shuffle(&mut order);
    }
    let mut files: Vec<BlkFileDesc> = (0..nf)
        .map(|k| BlkFileDesc {
            number: k as u64,
            width: 5,
            segs: vec![],
            symlink: false,
        })
        .collect();
    for (pos, i) in order.iter().enumerate() {
        let f = if rng.chance(1, 2) { pos * nf / n.max(1) } else { rng.usize(0, nf - 1) };
        if junk && rng.chance(1, 4) {
            let seg = match rng.below(3) {
                0 => Seg::Zero { n: rng.range(1, 300) },
                1 => Seg::Garbage {
                    bytes: Bytes(rng.bytes_range(1, 200)),
                },
                _ => Seg::Zero { n: rng.range(1, 40000) },
            };
            files[f].segs.push(seg);
        }
        files[f].segs.push(Seg::Active { i: *i });
    }
    // every file must hold at least something; drop empties
    files.retain(|f| f.segs.iter().any(|s| matches!(s, Seg::Active { .. })));
    Layout {
        files,
        xor_key: None,
        magic_mode: 0,
        xor_symlink: false,
        link_chain: false,
        side_xor: None,
        extra_files: vec![],
    }
}

pub fn random_chunks(rng: &mut Rng) -> Vec<usize> {
    let n = rng.usize(1, 12);
    let style = rng.below(4);
    (0..n)
        .map(|_| match style {
            0 => 1,
            1 => rng.usize(1, 16),
            2 => rng.log_range(1, 40000) as usize,
            _ => *rng.pick(&[1usize, 2, 3, 7, 8, 9, 63, 64, 65, 511, 512, 4096, 32767, 32768]),
        })
        .collect()
}

/// swarm-selected benign perturbations
pub fn benign_plan(rng: &mut Rng) -> Plan {
    let mut p = Plan::default();
    if rng.coin() {
        p.chunk_blk = random_chunks(rng);
    }
    if rng.chance(1, 4) {
        p.chunk_xor = random_chunks(rng);
    }
    if rng.coin() {
        p.writer_cap = Some(*rng.pick(&[1usize, 2, 7, 64, 100, 4096, 65536, 4_000_000]));
    }
    if rng.chance(1, 3) {
        p.wshort = random_chunks(rng);
    }
    if rng.chance(1, 3) {
        p.weintr = rng.range(2, 9);
    }
    if rng.chance(1, 3) {
        let mode = *rng.pick(&["asc", "desc", "random", "straggler"]);
        p.delay = Some((mode.to_string(), rng.next() >> 1, rng.range(20, 120)));
    }
    p
}

pub fn pick_threads(rng: &mut Rng) -> usize {
    *rng.pick(&[1usize, 2, 3, 8, 16, 64])
}

pub fn index_opts(rng: &mut Rng) -> IndexOpts {
    IndexOpts {
        storage: rng.pick(&["log", "flush", "multi", "compact"]).to_string(),
        client_version: *rng.pick(&[70015u64, 150000, 259900, 127, 128, 16511, 16512]),
        extra_keys: vec![],
        order_seed: rng.next() | 1,
        undo_pos_base: rng.below(100000),
        active_extra_status: *rng.pick(&[0u64, 0, 128, 128, 256, 384]),
        active_clear_status: 0,
        ntx_mode: if rng.chance(1, 4) { rng.range(1, 3) as u8 } else { 0 },
        key_overrides: vec![],
        file_info: rng.chance(1, 3),
        pruned_below: 0,
        pruned_at: vec![],
    }
}

pub fn new_scenario(prop: &str, family: &str, coin: &str) -> Scenario {
    Scenario {
        property: prop.to_string(),
        family: family.to_string(),
        class: None,
        detail: None,
        seed: 0,
        index_no: 0,
        coin: coin.to_string(),
        base_height: 0,
        chain: vec![],
        extras: vec![],
        layouts: vec![],
        index: IndexOpts::default(),
        dump_pre: vec![],
        runs: vec![],
        params: serde_json::Value::Null,
    }
}

// ------------------------------------------------------------------ rich shapes (C01, C12, C13 …)

pub const BOUNDARY_LENS: [usize; 10] = [0, 1, 2, 75, 76, 252, 253, 254, 255, 256];
pub const BIG_LENS: [usize; 6] = [65535, 65536, 65537, 20000, 40000, 100000];

pub fn canonical_script(coin: &str, rng: &mut Rng) -> Vec<u8> {
    let btc = coin == "bitcoin" || coin == "testnet3";
    let k = rng.below(if btc { 10 } else { 6 });
    match k {
        0 | 1 => p2pkh(&rng.bytes(20)),
        2 => p2sh(&rng.bytes(20)),
        3 => {
            let c = rng.coin();
            p2pk(&fake_pubkey(rng, c))
        }
        4 => {
            let n = rng.usize(1, 40);
            op_return(&rng.bytes(n).iter().map(|b| b'a' + (b % 26)).collect::<Vec<u8>>())
        }
        5 => {
            let keys: Vec<Vec<u8>> = (0..3).map(|_| fake_pubkey(rng, true)).collect();
            multisig(2, &keys, 3)
        }
        6 => witness_prog(0, &rng.bytes(20)),
        7 => witness_prog(0, &rng.bytes(32)),
        8 => witness_prog(1, &rng.bytes(32)),
        _ => {
            let v = rng.range(2, 16) as u8;
            let n = rng.usize(2, 40);
            witness_prog(v, &rng.bytes(n))
        }
    }
}

pub struct TxShape {
    pub max_in: usize,
    pub max_out: usize,
    pub boundary: bool,
    pub big: bool,
    pub segwit_ok: bool,
    pub random_scripts: bool,
    /// arbitrary u64 output values (totals may pass 2^64: only for csvdump-only worlds)
    pub edge_values: bool,
}

fn pick_len(rng: &mut Rng, sh: &TxShape, small_max: usize) -> usize {
    if sh.big && rng.chance(1, 40) {
        *rng.pick(&BIG_LENS)
    } else if sh.boundary && rng.chance(1, 6) {
        *rng.pick(&BOUNDARY_LENS)
    } else {
        rng.usize(0, small_max)
    }
}

fn pick_count(rng: &mut Rng, sh: &TxShape, max: usize) -> usize {
    if sh.boundary && rng.chance(1, 25) {
        *rng.pick(&[0xfcusize, 0xfd, 0xfe])
    } else {
        rng.usize(1, max.max(1))
    }
}

pub fn rich_tx(coin: &str, rng: &mut Rng, sh: &TxShape) -> TxDesc {
    let segwit = sh.segwit_ok && rng.chance(1, 3);
    let n_in = pick_count(rng, sh, sh.max_in);
    let n_out = pick_count(rng, sh, sh.max_out);
    let mut inputs = Vec::with_capacity(n_in);
    for _ in 0..n_in {
        let ss_len = pick_len(rng, sh, 110);
        let mut witness = vec![];
        if segwit {
            let items = if sh.boundary && rng.chance(1, 30) { *rng.pick(&[0usize, 1, 252, 253]) } else { rng.usize(0, 4) };
            for _ in 0..items {
                let l = if items > 10 { rng.usize(0, 3) } else { pick_len(rng, sh, 80) };
                witness.push(Bytes(rng.bytes(l)));
            }
        }
        inputs.push(InDesc {
            prev_txid: Bytes(rng.bytes(32)),
            prev_index: rng.u32_edge(),
            script_sig: Bytes(rng.bytes(ss_len)),
            sequence: rng.u32_edge(),
            witness,
        });
    }
    let mut outputs = Vec::with_capacity(n_out);
    for _ in 0..n_out {
        let script = if sh.random_scripts && rng.chance(1, 3) {
            let l = pick_len(rng, sh, 60);
            let mut s = rng.bytes(l);
            // keep the model certain about fork no-op subtleties: nothing to do, address column is not judged there
            if !s.is_empty() && rng.chance(1, 4) {
                s[0] = 0x6a;
            }
            s
        } else {
            canonical_script(coin, rng)
        };
        outputs.push(OutDesc {
            value: if sh.edge_values { rng.u64_edge() } else { rng.log_range(1, 20_000_000_000_000) * (rng.below(8) != 0) as u64 },
            script: Bytes(script),
        });
    }
    TxDesc {
        version: rng.u32_edge(),
        segwit,
        inputs,
        outputs,
        locktime: rng.u32_edge(),
        cs_width: 0,
    }
}

pub fn random_auxpow(coin: &str, rng: &mut Rng, sh: &TxShape) -> AuxPowDesc {
    let branch = |rng: &mut Rng| {
        let n = *rng.pick(&[0usize, 0, 1, 2, 3, 5, 8, 32, 33]);
        MerkleBranchDesc {
            hashes: (0..n).map(|_| Bytes(rng.bytes(32))).collect(),
            mask: rng.u32_edge(),
        }
    };
    let mut cb = rich_tx(coin, rng, sh);
    cb.inputs.truncate(3);
    cb.outputs.truncate(4);
    // the merged-mining commitment marker followed by a complete (40+ bytes) or an incomplete tail
    if rng.chance(1, 3) {
        let mut s = rng.bytes_range(0, 20);
        s.extend_from_slice(&[0xfa, 0xbe, 0x6d, 0x6d]);
        let tail = *rng.pick(&[0usize, 1, 8, 31, 32, 39, 40, 44, 60]);
        s.extend(rng.bytes(tail));
        cb.inputs[0].script_sig = Bytes(s);
    }
    // parent coinbase "of any shape": also without any input (only expressible in the extended form) or
    // without any output
    if rng.chance(1, 8) {
        cb.segwit = true;
        cb.inputs.clear();
    }
    if rng.chance(1, 12) {
        cb.outputs.clear();
    }
    // the parent block header: random bytes, or a header whose version field looks like a merged-mined
    // chain's own (chain id << 16 | 0x100 | n) — incl. this coin's chain id — or like a plain/BIP9 version
    let mut ph = rng.bytes(80);
    if rng.chance(1, 2) {
        let id = *rng.pick(&[0x0001u32, 0x0062, 0x005a, 0x0002, 0x0008, 0x1000]);
        let v: u32 = match rng.below(4) {
            0 => (id << 16) | 0x100 | rng.range(1, 4) as u32,
            1 => (id << 16) | rng.range(0, 0xffff) as u32,
            2 => 0x2000_0000 | (rng.next() as u32 & 0x1fff_ffff),
            _ => rng.range(1, 4) as u32,
        };
        ph[..4].copy_from_slice(&v.to_le_bytes());
    }
    AuxPowDesc {
        coinbase_tx: cb,
        parent_hash: Bytes(rng.bytes(32)),
        coinbase_branch: branch(rng),
        chain_branch: branch(rng),
        parent_header: Bytes(ph),
    }
}

/// version field respecting the coin's AuxPoW rule: returns (version, needs_auxpow)
pub fn pick_version(coin: &str, rng: &mut Rng, arbitrary: bool) -> (u32, bool) {
    let thr = coin_params(coin).auxpow_version;
    let v = if arbitrary {
        match rng.below(6) {
            0 => rng.u32_edge(),
            1 => 0x2000_0000 | (rng.next() as u32 & 0x1fff_ffff),
            2 => thr.unwrap_or(0x10101),
            3 => thr.unwrap_or(0x10101).wrapping_sub(1),
            4 => thr.unwrap_or(0x10101).wrapping_add(rng.below(1000) as u32),
            _ => rng.range(1, 4) as u32,
        }
    } else {
        rng.range(1, 4) as u32
    };
    (v, thr.map(|t| v >= t).unwrap_or(false))
}

pub fn rich_block(coin: &str, h: u64, n_tx: usize, rng: &mut Rng, sh: &TxShape, arbitrary_header: bool) -> BlockDesc {
    let (version, aux) = pick_version(coin, rng, arbitrary_header);
    let mut txs = Vec::with_capacity(n_tx);
    // first tx: coinbase with at least one output (simplestats reads outputs[0])
    let mut cb = rich_tx(coin, rng, sh);
    cb.inputs = vec![coinbase_input(h, rng)];
    if cb.segwit {
        cb.inputs[0].witness = vec![Bytes(vec![0; 32])];
    }
    txs.push(cb);
    for _ in 1..n_tx {
        txs.push(rich_tx(coin, rng, sh));
    }
    BlockDesc {
        version,
        prev: None,
        merkle: None,
        time: if arbitrary_header { rng.u32_edge().max(1) } else { 1_400_000_000 + h as u32 * 600 },
        bits: if arbitrary_header { rng.u32_edge() } else { 0x1d00ffff },
        nonce: rng.u32_edge(),
        auxpow: if aux { Some(random_auxpow(coin, rng, sh)) } else { None },
        txs,
    }
}


/// rough size of the serialised chain (bytes), from the description
pub fn chain_bytes(chain: &[BlockDesc]) -> u64 {
    let mut n = 0u64;
    for b in chain {
        n += 90;
        if let Some(a) = &b.auxpow {
            n += 200 + 32 * (a.coinbase_branch.hashes.len() + a.chain_branch.hashes.len()) as u64;
        }
        for t in &b.txs {
            n += 12;
            for i in &t.inputs {
                n += 42 + i.script_sig.0.len() as u64 + i.witness.iter().map(|w| w.0.len() as u64 + 3).sum::<u64>();
            }
            for o in &t.outputs {
                n += 10 + o.script.0.len() as u64;
            }
        }
    }
    n
}

/// same for output: a 1-byte writer capacity (or 1-byte short writes) over megabytes of CSV
pub fn fit_writes(plan: &mut Plan, out_bytes: u64, max_events: u64) {
    let need = (out_bytes / max_events.max(1)) as usize + 1;
    if let Some(c) = plan.writer_cap {
        if c < need {
            plan.writer_cap = Some(need + c % 5);
        }
    }
    if !plan.wshort.is_empty() {
        let avg = plan.wshort.iter().sum::<usize>() / plan.wshort.len();
        if avg < need {
            for c in plan.wshort.iter_mut() {
                if *c < need {
                    *c = need + (*c % 7);
                }
            }
        }
    }
}

/// keep the number of read events of a run bounded (a 1-byte read chunk over megabytes of blocks
/// would produce millions of trace events): raise the smallest chunks until bytes/chunk <= max_events
pub fn fit_chunks(plan: &mut Plan, total_bytes: u64, max_events: u64) {
    if plan.chunk_blk.is_empty() || total_bytes == 0 {
        return;
    }
    let need = (total_bytes / max_events.max(1)) as usize + 1;
    let avg = plan.chunk_blk.iter().sum::<usize>() / plan.chunk_blk.len();
    if avg < need {
        for c in plan.chunk_blk.iter_mut() {
            if *c < need {
                *c = need + (*c % 7);
            }
        }
    }
}
