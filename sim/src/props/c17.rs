//! C17 — open blk files stay bounded by the files overlapping the current height.
use crate::check::*;
use crate::desc::*;
use crate::exec::*;
use crate::gen::*;
use crate::oracle::*;
use crate::render::Model;
use crate::util::*;
use std::collections::{BTreeMap, BTreeSet};

pub struct C17;

fn layout_family(fam: u64, n: usize, rng: &mut Rng, max_files: usize) -> Layout {
    let nf = match fam {
        2 => 2,
        _ => rng.usize(1, max_files.min(n).max(1)),
    };
    let mut files: Vec<BlkFileDesc> = (0..nf)
        .map(|k| BlkFileDesc {
            number: k as u64,
            width: 5,
            segs: vec![],
            symlink: false,
        })
        .collect();
    // cut points for spans
    let span = |i: usize| (i * nf / n).min(nf - 1);
    for i in 0..n {
        let f = match fam {
            0 => span(i),                                                           // disjoint spans
            1 => (span(i) + (rng.chance(1, 3) as usize)).min(nf - 1),                // overlapping neighbours
            2 => i % 2,                                                             // two files interleaved block by block
            3 => {
                if i == n - 1 {
                    0
                } else {
                    span(i)
                }
            } // a late block of an early file
            _ => rng.usize(0, nf - 1),
        };
        files[f].segs.push(Seg::Active { i });
    }
    files.retain(|f| !f.segs.is_empty());
    // physical order inside a file is irrelevant to the property: shuffle sometimes
    for f in files.iter_mut() {
        if rng.chance(1, 3) {
            rng.shuffle(&mut f.segs);
        }
    }
    Layout {
        files,
        xor_key: None,
        magic_mode: 0,
        xor_symlink: false,
        link_chain: false,
        side_xor: None,
        extra_files: vec![],
    }
}

/// height of extra block `i` if its record is admitted (VALID_CHAIN bit or HAVE_DATA) and lies above the tip
fn beyond_tip_height(scn: &Scenario, i: usize) -> Option<u64> {
    let t = scn.base_height + scn.chain.len() as u64 - 1;
    let ix = scn.extras.get(i)?.index.as_ref()?;
    if ix.status & 12 != 0 && ix.height > t {
        Some(ix.height)
    } else {
        None
    }
}

/// file -> (min height, max height) over the whole index
fn spans(scn: &Scenario, l: &Layout) -> BTreeMap<u64, (u64, u64)> {
    let mut m: BTreeMap<u64, (u64, u64)> = BTreeMap::new();
    for f in &l.files {
        for s in &f.segs {
            let h = match s {
                Seg::Active { i } => Some(scn.base_height + *i as u64),
                // an admitted record above the tip (downloaded ahead, never connected) is, for the index, a block
                // of a height yet to come: the file that holds it may stay open
                Seg::Extra { i } => beyond_tip_height(scn, *i),
                _ => None,
            };
            if let Some(h) = h {
                let e = m.entry(f.number).or_insert((h, h));
                e.0 = e.0.min(h);
                e.1 = e.1.max(h);
            }
        }
    }
    m
}

/// peak number of files that must be open at once for range s..=e
fn peak_needed(scn: &Scenario, l: &Layout, s: u64, e: u64) -> usize {
    // first use inside the range, last need = max height over the whole index
    let mut first: BTreeMap<u64, u64> = BTreeMap::new();
    let mut maxh: BTreeMap<u64, u64> = BTreeMap::new();
    for f in &l.files {
        for sg in &f.segs {
            if let Seg::Extra { i } = sg {
                if let Some(h) = beyond_tip_height(scn, *i) {
                    let mh = maxh.entry(f.number).or_insert(h);
                    *mh = (*mh).max(h);
                }
            }
            if let Seg::Active { i } = sg {
                let h = scn.base_height + *i as u64;
                let mh = maxh.entry(f.number).or_insert(h);
                *mh = (*mh).max(h);
                if h >= s && h <= e {
                    let fh = first.entry(f.number).or_insert(h);
                    *fh = (*fh).min(h);
                }
            }
        }
    }
    let mut peak = 0;
    for h in s..=e {
        let c = first.iter().filter(|(f, fh)| **fh <= h && maxh[*f] >= h).count();
        peak = peak.max(c);
    }
    peak
}

impl Prop for C17 {
    fn id(&self) -> &'static str {
        "C17"
    }
    fn level(&self) -> &'static str {
        "fault_enumeration"
    }
    fn rule(&self) -> String {
        "layouts with 1..300 blk files in five families (disjoint height spans, overlapping neighbouring spans, two files interleaved block by block, a late block of an early file, random) x ranges starting/stopping mid-file x the five callbacks. Oracle 1 (history invariant over the I/O trace): at the first event of every height h+1 and after the last delivered height, every blk file still open holds, per the index, a block of height > h. Oracle 2 (resource fault, enumerated): the run is repeated under a simulated descriptor limit of every value P..P+3, P = the peak number of simultaneously needed files computed by the model, and must succeed with model-equal output; for disjoint spans P must not grow with the number of files. Non-trivial = layout has >=3 files; distinct by scenario hash.".into()
    }
    fn exhaustive_note(&self) -> Option<String> {
        Some("descriptor limits P..P+3 enumerated per sampled world; layouts sampled".into())
    }
    fn items(&self, tier: Tier) -> u64 {
        if tier == Tier::Quick {
            800
        } else {
            8000
        }
    }
    fn required_probes(&self, _tier: Tier) -> Vec<&'static str> {
        vec!["files_ge_100", "interleaved_two_files", "late_block_of_early_file", "range_starts_mid_file", "range_stops_mid_file", "emfile_limit_at_peak", "blocks_over_1_mib"]
    }
    fn explore(&self, item: u64, rng: &mut Rng, tier: Tier, h: &mut Harness) -> Result<(), String> {
        let coin = COINS[(item % 8) as usize];
        let fam = item % 5;
        let mut scn = new_scenario("C17", ["disjoint", "overlap", "interleaved", "late-block", "random"][fam as usize], coin);
        let big = item % 11 == 0;
        let n = if big { rng.usize(150, if tier == Tier::Quick { 320 } else { 600 }) } else { rng.usize(3, 40) };
        scn.chain = (0..n).map(|i| marker_block(i as u64, 0, rng)).collect();
        // a few blocks of more than 1 MiB (real blocks are), in different files
        let fat = !big && item % 13 == 1;
        if fat {
            for k in 0..rng.usize(2, 4) {
                let i = (k * n / 4 + rng.usize(0, 1)).min(n - 1);
                scn.chain[i].txs[0].inputs[0].script_sig = Bytes(vec![(i % 251) as u8; 1_048_576 + rng.usize(0, 400_000)]);
            }
            h.stats.probe("blocks_over_1_mib");
        }
        let max_files = if big { 300 } else { 12 };
        scn.layouts = vec![layout_family(fam, n, rng, max_files)];
        // a reorg history in the index (records the loader ignores) must not keep files open
        if n <= 60 && rng.chance(1, 3) {
            super::c04::add_ignored_competitors(&mut scn, rng);
            h.stats.probe("index_with_ignored_competitors");
        }
        scn.index = index_opts(rng);
        let cb = *rng.pick(&["csvdump", "csvdump", "unspentcsvdump", "balances", "simplestats", "opreturn"]);
        let mut r = RunSpec::new(cb);
        r.threads = 2;
        let t = n as u64 - 1;
        if rng.chance(1, 2) {
            r.start = Some(rng.range(0, t.saturating_sub(1)));
        }
        if rng.chance(1, 2) {
            let s = r.start.unwrap_or(0);
            r.end = Some(rng.range(s + 1, t + 1));
        }
        if rng.chance(1, 3) && !fat {
            r.plan.chunk_blk = random_chunks(rng);
        }
        // simulated clock: the "every 10 seconds" progress report fires every few blocks (or every block)
        if rng.chance(1, 2) {
            r.plan.clock_step_ms = Some(*rng.pick(&[1u64, 900, 4000, 11_000, 86_400_000]));
        }
        let s = r.start.unwrap_or(0);
        let e = r.end.map(|x| x.min(t)).unwrap_or(t);
        let p = peak_needed(&scn, &scn.layouts[0], s, e);
        // unlimited run, then every limit P..P+3
        scn.runs.push(r.clone());
        for lim in p..=p + 3 {
            let mut x = r.clone();
            x.plan.fdmax = Some(lim.max(1));
            scn.runs.push(x);
        }
        super::dress(&mut scn, rng, true);
        // dressing may have added index records that keep a file open (blocks downloaded ahead of the tip):
        // the limits follow the model of the final world
        let p = peak_needed(&scn, &scn.layouts[0], s, e);
        for (k, x) in scn.runs.iter_mut().enumerate().skip(1) {
            x.plan.fdmax = Some((p + k - 1).max(1));
        }
        h.check(&mut scn)?;
        Ok(())
    }
    fn nontrivial(&self, scn: &Scenario, outs: &[RunOutcome]) -> bool {
        scn.layouts[0].files.len() >= 3 && outs.iter().any(|o| o.exit.ok())
    }
    fn judge(&self, scn: &Scenario, m: &Model, outs: &[RunOutcome], st: &mut Stats) -> Vec<Violation> {
        let mut v = Vec::new();
        let l = &scn.layouts[0];
        let sp = spans(scn, l);
        let name_to_no: BTreeMap<String, u64> = l.files.iter().map(|f| (crate::world::blk_name(f.number, f.width), f.number)).collect();
        if l.files.len() >= 100 {
            st.probe("files_ge_100");
        }
        match scn.family.as_str() {
            "interleaved" => st.probe("interleaved_two_files"),
            "late-block" => st.probe("late_block_of_early_file"),
            _ => {}
        }
        for (ri, (r, o)) in scn.runs.iter().zip(outs.iter()).enumerate() {
            let s = r.start.unwrap_or(0);
            let e = r.end.map(|x| x.min(m.tip())).unwrap_or(m.tip());
            if sp.values().any(|(lo, hi)| *lo < s && *hi >= s) {
                st.probe("range_starts_mid_file");
            }
            if sp.values().any(|(lo, hi)| *lo <= e && *hi > e) {
                st.probe("range_stops_mid_file");
            }
            let p = peak_needed(scn, l, s, e);
            if let Some(lim) = r.plan.fdmax {
                if lim == p.max(1) {
                    st.probe("emfile_limit_at_peak");
                }
                let ahead = (0..scn.extras.len()).any(|i| beyond_tip_height(scn, i).is_some());
                if scn.family == "disjoint" && p > 1 && !ahead {
                    v.push(viol("C17/harness/model-peak", format!("model bug: disjoint spans need {} files", p)));
                }
            }
            if !o.exit.ok() {
                let emfile = o.trace.iter().any(|x| x.op == "open" && x.raw.contains("err 24"));
                v.push(viol(
                    if emfile { "C17/descriptor-limit-exceeded" } else { "C17/run-failed" },
                    format!(
                        "run {} (family {}, {} files, range {}..{}, model peak {} files, limit {:?}) failed: exit {:?}: {}",
                        ri,
                        scn.family,
                        l.files.len(),
                        s,
                        e,
                        p,
                        r.plan.fdmax,
                        o.exit,
                        super::c01::tail(&o.stderr_str())
                    ),
                ));
                continue;
            }
            // Oracle 1: open-set invariant over the trace
            let mut open: BTreeSet<u64> = BTreeSet::new();
            let mut opens_per_file: BTreeMap<u64, u32> = BTreeMap::new();
            let mut cur: Option<u64> = None; // height being fetched
            let mut bad: Option<String> = None;
            let check = |open: &BTreeSet<u64>, delivered: u64, at: &str| -> Option<String> {
                for f in open {
                    if sp.get(f).map(|x| x.1).unwrap_or(0) <= delivered {
                        return Some(format!("after height {} was delivered ({}), blk file #{} (heights {:?}) is still open", delivered, at, f, sp.get(f)));
                    }
                }
                None
            };
            let mut past_last_block = false;
            for ev in &o.trace {
                match (ev.op.as_str(), ev.class.as_str()) {
                    ("open", "blk") => {
                        if let (Some(no), Some((true, _))) = (name_to_no.get(&ev.name), Some(ev.result().unwrap_or((ev.raw.contains("-> ok"), 0)))) {
                            open.insert(*no);
                            *opens_per_file.entry(*no).or_insert(0) += 1;
                        }
                    }
                    ("close", "blk") => {
                        if let Some(no) = name_to_no.get(&ev.name) {
                            open.remove(no);
                        }
                    }
                    ("height", _) => {
                        let hh: u64 = ev.class.parse().unwrap_or(0);
                        if let Some(prev) = cur {
                            if bad.is_none() {
                                bad = check(&open, prev, &format!("at the first event of height {}", hh));
                            }
                        }
                        cur = Some(hh);
                    }
                    (_, "out") => {
                        // first output-file event after the last block: on_complete is running
                        if cur == Some(e) && !past_last_block && matches!(r.callback.as_str(), "unspentcsvdump" | "balances") {
                            past_last_block = true;
                            if bad.is_none() {
                                bad = check(&open, e, "when the result is written");
                            }
                        }
                        if cur == Some(e) && !past_last_block && ev.op == "rename" {
                            past_last_block = true;
                            if bad.is_none() {
                                bad = check(&open, e, "when the result files are renamed");
                            }
                        }
                    }
                    _ => {}
                }
            }
            if opens_per_file.values().any(|c| *c > 1) || open.len() > 0 {
                st.probe("file_reopened_or_kept");
            }
            if let Some(b) = bad {
                v.push(viol("C17/file-open-past-its-last-block", format!("family {} with {} files, range {}..{}: {}", scn.family, l.files.len(), s, e, b)));
            }
            for x in compare_with_model("C17/wrong-output", m, r, o, &CmpOpts { addr: false, decimals: false }, st) {
                v.push(viol("C17/wrong-output", x.detail));
            }
        }
        v
    }
}
