#!/usr/bin/env python3
"""Regenerates MANIFEST.json from the table below (keeps it valid at all times)."""
import json, subprocess
HOOK_COMMITS = ["b5f9d2d"]
FIX_COMMITS = ["0b9f86a", "6aba424", "2465c6f"]
CLAIMED = {
 "C02": dict(cat="exploration", ref="§5 C02",
   text="Deterministic simulation of the whole program against generated data directories: the (chain length T<=10) x option-shape x callback grid is enumerated completely (2.9k scenarios), high heights (VarInt width boundaries, up to 4M) and long chains are sampled under benign I/O perturbation. Marker blocks make every output row reveal its height, so 'exactly s..min(e,T), once, ascending' is read off the real outputs of all five callbacks.",
   note="Trusted: the world builder (rusty-leveldb writes the index the program reads), the marker scheme, tmpfs. Sampling outside the small grid.",
   tech="deterministic simulation: seeded world generation + whole-program runs under a planned I/O seam, exhaustive small grid + seeded sampling, oracle = marker heights vs range model"),
 "C01": dict(cat="exploration", ref="§5 C01",
   text="Seeded sampling of well-formed chains (boundary counts/lengths, segwit, extreme field values, 8 coins, --verify on/off) rendered by an independent serialiser+renderer and compared byte for byte with the four CSV files the real program writes, each run under swarm-selected benign I/O and schedule perturbation (short reads/writes, EINTR, writer capacity 1B..4MB forcing mid-run flushes, 1..64 workers, completion-order delays). What simulation adds over input generation is only environment independence; field fidelity rests on sampling against a hand-written reference.",
   note="Trusted: the hand-written serialiser/renderer (checked against 5 real genesis blocks), bitcoin_hashes SHA-256. Address column excluded (C05/C06). Sampling, no proof.",
   tech="deterministic simulation, fault-free/benign configuration: seeded generation + differential comparison with an executable reference model under planned short I/O and worker-count/delay perturbation"),
 "C03": dict(cat="exploration", ref="§5 C03",
   text="One logical chain is stored under 4-12 generated physical layouts per scenario (permutations across up to 300 files, file numbers up to 2^64-1, name padding, garbage, unindexed foreign blocks, sparse >4GiB offsets, extra index keys and directory entries) and every layout is run under injected read chunking so seeks land inside and outside the buffer; outputs must be identical across layouts and equal to the reference model.",
   note="Trusted: world builder writes the LevelDB index with the same rusty-leveldb crate that reads it (format compatibility with Bitcoin Core's files is assumed); symlinked blk files are not generated.",
   tech="deterministic simulation: layout x seek-order x short-read (effective buffer size) exploration, metamorphic equality across layouts + reference model"),
 "C11": dict(cat="exploration", ref="§5 C11",
   text="Twin data directories (plaintext / XOR-obfuscated with keys of length 1..64 incl. all-zero) over the C03 layout generator; read chunk sizes are injected relative to the key period (0,+1,-1 mod period, below the period) so refill boundaries fall at every key phase, with backward/forward seeks, >32KiB blocks and >4GiB offsets. All five callbacks must give identical results for both twins and match the reference model.",
   note="Empty xor.dat is outside the statement and not generated. Same trusted base as C03.",
   tech="deterministic simulation: injected short reads at chosen key phases x seek orders, metamorphic twin comparison + reference model"),
 "C12": dict(cat="exploration", ref="§5 C12",
   text="Seeded chains on namecoin/dogecoin mixing versions below/at/above the activation version with generated AuxPoW sections (legacy/segwit parent coinbase, branch lengths 0..253, any masks) and the six other coins as negative control with the same versions; all five callbacks compared with the reference model, --verify on half the runs, under read chunking (sections straddle refills), layouts and worker counts.",
   note="Input-universal property: deciding power is seeded sampling against a hand-written serialiser; simulation contributes environment independence only.",
   tech="deterministic simulation, benign configuration: seeded generation + reference model under injected short reads / layouts / worker counts"),
 "C07": dict(cat="exploration", ref="§5 C07",
   text="History simulation against a step-wise reference UTXO state machine: every history of <=3 (thorough <=4) operations over six operation kinds x all block-boundary placements is enumerated, longer histories (fan-in/out, same-block spends, unknown outpoints, double references, duplicate txids, >256 outputs) are sampled; the real program is run for every prefix of small histories (-e h) and for mid-history ranges, with writer capacities from 1 byte so the dump is flushed in pieces, and the row set of the unspent dump must equal the model's map after the same step.",
   note="Trusted: reference UTXO machine and script reference (canonical templates only in this generator). Sampling beyond the enumerated small histories.",
   tech="deterministic simulation of operation histories: bounded-exhaustive + seeded histories checked step by step (per prefix) against an executable reference state machine"),
 "C08": dict(cat="exploration", ref="§5 C08",
   text="Same history simulation with address reuse; balances must equal the reference group-by-sum at every prefix, and must equal the aggregation of the program's own unspent dump produced from the same data directory and range (two whole-program runs related by an invariant).",
   note="Values kept below 2^64 in total (overflow is outside the statement). Same trusted base as C07.",
   tech="deterministic simulation of operation histories: reference model + cross-run conservation invariant (balances = aggregate(unspent))"),
 "C10": dict(cat="fault_enumeration", ref="§5 C10, §4",
   text="Fault enumeration inside the real process: for every sampled world x file-producing callback x writer capacity, every height x input-fault kind (file removed/emptied/truncated at six positions/offset past EOF), EIO on every blk read event, every output size limit (all values for small outputs, all write boundaries +-1 otherwise), ENOSPC/EIO at every write event incl. the final buffered flush, failure of every rename, and process abort before every I/O event and inside every write are each executed as one simulated run and judged (exit status, reported height, final-named files, untouched foreign files, no partial final file, on-disk size of the source at each rename). The kill abstraction is exact w.r.t. the dump folder because all file operations are issued by one thread in program order.",
   note="Trusted: the simio seam executes the plan faithfully; abort() stands for SIGKILL; power-loss durability (fsync) is not modelled (not in the property). Worlds are sampled; per world the fault dimensions listed are complete up to the stated caps (120 write events / 250 crash points per run, sampled beyond, reported by probes).",
   tech="deterministic simulation with fault injection: planned I/O faults and crash points addressed by global event index, enumerated per sampled world; oracle over exit status, stderr, directory state and the I/O trace"),
 "C09": dict(cat="fault_enumeration", ref="§5 C09",
   text="Stored-state fault enumeration on the simulated disk: for each sampled world and attacked height, every single bit of the prev-hash field, of the merkle-root field and of the txid-covered transaction bytes is flipped (one whole-program run each, ~24k runs quick), every block is swapped for a block of another chain / another height, and a non-genesis block 0 is offered for all 8 coins; each must fail at that height (non-zero exit, no final-named file, no later block fetched per the I/O trace). Completeness: consistent chains with every merkle-tree shape up to 257 txs, any --start, the real genesis block for 5 coins, under benign I/O perturbation must be accepted with model-equal output.",
   note="Genesis blocks of myriadcoin/unobtanium/noteblockchain could not be rebuilt offline: for them the positive case starts at height 1 and a wrong genesis constant would go unnoticed. Flips in marker/flag/witness bytes, tx-count and version/time/bits/nonce are outside the statement and not judged.",
   tech="deterministic simulation with stored-state fault injection: exhaustive single-bit flips per sampled block + block swaps, oracle over exit status, stderr height, directory state and I/O trace"),
 "C17": dict(cat="fault_enumeration", ref="§5 C17",
   text="History invariant over the recorded I/O trace (open/close events of every blk file against the heights being fetched): after each delivered height no open file may be one whose highest indexed block is already delivered; plus resource-fault enumeration: each world is re-run under a simulated descriptor limit (EMFILE from open) of every value from the model's peak P to P+3 and must succeed with model-equal output. Layout families: disjoint spans up to 300 files (P must be 1), overlapping spans, two interleaved files, late block of an early file, random; ranges starting/stopping mid-file.",
   note="The descriptor table is simulated inside the seam (count of open blk files), not RLIMIT_NOFILE, so LevelDB's and the output files' descriptors are not counted. Closing early and reopening is legal and not flagged.",
   tech="deterministic simulation: trace invariant checked at every height boundary + enumerated descriptor-limit faults (EMFILE) per sampled layout"),
 "C13": dict(cat="exploration", ref="§5 C13, §2.6",
   text="Schedule and history exploration: (a) each wide world (hundreds of txs per block / thousands of outputs per tx, so both rayon levels really split) is run 10-14 times over 1..64 workers with completion order pushed by per-item delays that are a pure function of the plan seed and item key (ascending, descending, random, one straggler), under 16-way process contention; all outputs must equal the 1-thread run and the reference model; (b) histories of 2-6 runs on one shared dump folder pre-seeded with longer stale tmp files, earlier results and unrelated files, judged after every step; (c) blk/xor digests and the logical key/value content of the index (read from a copy) must be unchanged by every run and reruns on the reopened index must agree.",
   note="Rayon's interleaving is pushed (worker count + deterministic per-item delays), not decided: threads are real, so which worker ran what is not bit-exactly replayable; on a tree where the property holds the outcome is schedule-independent, so this cannot raise a false alarm; for a violation the replay command retries up to 6 times. shuttle/loom cannot drive rayon (DESIGN §10).",
   tech="deterministic simulation of run histories + seeded schedule perturbation (worker count x completion-order delay plans), metamorphic equality across schedules and against a reference model"),
 "C05": dict(cat="exploration", ref="§5 C05",
   text="Differential testing of a total function through the simulated pipeline: 300-3000 scripts per run packed as outputs of a few transactions (so the parallel evaluation really splits), generated from canonical templates, one-byte mutations, all leading opcodes, the witness version x length grid, the multisig m/n grid, random tokens and bytes; address per script read from csvdump, type counts and first occurrences from simplestats, compared with an independent reference (own Base58Check/Bech32/Bech32m, BIP141 rules) that abstains where the statement is silent; every reported address is additionally decoded and matched against the script. Worker count, completion-order delays and read chunking are perturbed.",
   note="Weakest fit for this technique: the property is a pure function of the script bytes; simulation adds only independence from worker count/completion order/buffering. The hand-written reference is the trusted base; abstentions (v0 witness programs of odd length, multisig look-alikes) are counted in the evidence.",
   tech="deterministic simulation, benign configuration: seeded differential testing against an executable reference under worker-count / delay / short-read perturbation"),
 "C06": dict(cat="exploration", ref="§5 C06",
   text="Same pipeline on the six fork coins: every template x every push form able to carry each slot (direct, PUSHDATA1/2/4), zero-length pushes, truncations, PUSHDATA lengths past the end (2^31, 2^32-1), no-op insertions at token boundaries, mutations, random tokens/bytes; addresses (coin version byte, 0x05 for P2SH) and type counts compared with a reference tokeniser written from the property statement; no evaluation-error type may appear and every run must exit 0.",
   note="Scripts containing CLTV/CSV (0xb1/0xb2) are abstained on. Same trusted base as C05.",
   tech="deterministic simulation, benign configuration: seeded differential testing against an executable reference tokeniser under worker-count / delay / short-read perturbation"),
}
PENDING_REASON = "check not built yet in this revision (claimed in DESIGN.md; will move to checks when its oracle is registered)"
ALL = ["C%02d" % i for i in range(1, 18)]
checks = []
for pid in ALL:
    if pid in CLAIMED:
        c = CLAIMED[pid]
        checks.append({
            "property_id": pid,
            "quick_cmd": "./check %s quick" % pid,
            "thorough_cmd": "./check %s thorough" % pid,
            "evidence_file": "/verif/evidence/%s.json" % pid,
            "replay_cmd_template": "./check replay {path}",
            "engine": "rbpsim",
            "level_claimed": {"category": c["cat"], "text": c["text"], "design_ref": c["ref"]},
            "level_note": c["note"],
            "technique": c["tech"],
        })
na = [{"property_id": p, "reason": PENDING_REASON} for p in ALL if p not in CLAIMED]
m = {
 "version": 1,
 "setup_cmd": "./setup.sh",
 "hooks": {
   "guard": "cargo feature verif-sim",
   "enable": "cargo build --offline --release --features verif-sim --manifest-path /repo/Cargo.toml --target-dir /verif/.build/sut (LTO off, overflow-checks and debug-assertions on)",
   "baseline_off_cmd": "cd /repo && cargo test --workspace --no-fail-fast --offline",
   "source_commits": HOOK_COMMITS,
   "add_only": True,
 },
 "engines": [{"name": "rbpsim", "path": "/verif/sim", "serves_properties": sorted(CLAIMED.keys()),
   "kind_free_text": "deterministic whole-program simulator: seeded scenario generator, tmpfs world builder (blk files, xor.dat, LevelDB index), in-process I/O seam executing a fault plan (short reads/writes, EINTR, ENOSPC/EIO, EMFILE, rename failure, kill at any I/O event), executable reference model, shrinker, replay files"}],
 "checks": checks,
 "not_applicable": na,
 "notes": "Replay: ./check replay <file>. Exit 0 held / 1 violation / 2 harness error. Known findings and fixed defects: known_findings.json.",
}
json.dump(m, open("MANIFEST.json", "w"), indent=1)
print("claimed:", sorted(CLAIMED.keys()))
