//! Executes the runs of a scenario against the real program and records what
//! happened (exit status, stdout/stderr, dump folder, I/O trace).
use crate::desc::*;
use crate::ser::Built;
use crate::world::*;
use std::collections::BTreeMap;
use std::fs;
use std::path::{Path, PathBuf};
use std::process::{Command, Stdio};
use std::sync::atomic::{AtomicU64, Ordering};
use std::sync::Mutex;
use std::time::{Duration, Instant};

#[derive(Clone, Debug, PartialEq, Eq)]
pub enum Exit {
    Code(i32),
    Signal(i32),
    Timeout,
}
impl Exit {
    pub fn ok(&self) -> bool {
        *self == Exit::Code(0)
    }
}

#[derive(Clone, Debug)]
pub struct Ev {
    pub seq: u64,
    pub op: String,
    pub class: String,
    pub name: String,
    pub raw: String,
}
impl Ev {
    pub fn field(&self, key: &str) -> Option<&str> {
        let pat = format!("{}=", key);
        self.raw.split_whitespace().find_map(|t| t.strip_prefix(pat.as_str()))
    }
    pub fn num(&self, key: &str) -> Option<i64> {
        self.field(key).and_then(|x| x.parse().ok())
    }
    /// "ok N" / "err N" after "->"
    pub fn result(&self) -> Option<(bool, i64)> {
        let i = self.raw.find("-> ")?;
        let mut t = self.raw[i + 3..].split_whitespace();
        let k = t.next()?;
        let n = t.next().and_then(|x| x.parse().ok()).unwrap_or(0);
        Some((k == "ok", n))
    }
}

#[derive(Clone, Debug)]
pub struct RunOutcome {
    pub exit: Exit,
    pub stdout: Vec<u8>,
    pub stderr: Vec<u8>,
    /// dump folder after the run
    pub dump: BTreeMap<String, Vec<u8>>,
    /// dump folder before the run
    pub dump_before: BTreeMap<String, Vec<u8>>,
    pub trace: Vec<Ev>,
    pub info: WorldInfo,
    pub data_digest_before: Option<String>,
    pub data_digest_after: Option<String>,
    pub index_before: Option<Vec<(Vec<u8>, Vec<u8>)>>,
    pub index_after: Option<Vec<(Vec<u8>, Vec<u8>)>>,
    pub wall: Duration,
    /// --start of the run (0 if absent)
    pub start: u64,
}

impl RunOutcome {
    /// (start, "Processed blocks up to height N") if the run got that far
    pub fn reported(&self) -> Option<(u64, u64)> {
        crate::obs::processed_upto(&self.stdout_str()).map(|e| (self.start, e))
    }
    pub fn stdout_str(&self) -> String {
        String::from_utf8_lossy(&self.stdout).into_owned()
    }
    pub fn stderr_str(&self) -> String {
        String::from_utf8_lossy(&self.stderr).into_owned()
    }
    /// stdout lines that are not log lines (`[HH:MM:SS] LEVEL - target: …`)
    pub fn plain_stdout_lines(&self) -> Vec<String> {
        let s = self.stdout_str();
        let mut out = Vec::new();
        let mut in_log_block = false;
        for l in s.lines() {
            if is_log_line(l) {
                in_log_block = true;
                continue;
            }
            if l.starts_with("height: ") {
                in_log_block = false;
            }
            if in_log_block {
                // continuation of a multi-line log message
                continue;
            }
            out.push(l.to_string());
        }
        out
    }
    /// opreturn records: one per println of the callback (a payload may contain newlines)
    pub fn opreturn_records(&self) -> Vec<String> {
        let s = self.stdout_str();
        // keep every stdout line that is not a log line (or the continuation of a multi-line log
        // message), each with its own newline: what remains is the concatenation of the callback's
        // println! outputs, each being `record + "\n"` (a record may itself contain newlines)
        let mut text = String::new();
        let mut in_log_block = false;
        let mut pieces: Vec<&str> = s.split('\n').collect();
        if pieces.last() == Some(&"") {
            pieces.pop();
        }
        for l in pieces {
            if is_log_line(l) {
                in_log_block = true;
                continue;
            }
            if l.starts_with("height: ") {
                in_log_block = false;
            }
            if in_log_block {
                continue;
            }
            text.push_str(l);
            text.push('\n');
        }
        let mut recs: Vec<String> = Vec::new();
        let mut rest = text.as_str();
        if !rest.starts_with("height: ") {
            match rest.find("\nheight: ") {
                Some(i) => rest = &rest[i + 1..],
                None => return recs,
            }
        }
        loop {
            let (this, next) = match rest[1..].find("\nheight: ") {
                Some(i) => (&rest[..i + 2], Some(&rest[i + 2..])),
                None => (rest, None),
            };
            // strip exactly the println's own newline
            recs.push(this.strip_suffix('\n').unwrap_or(this).to_string());
            match next {
                Some(n) => rest = n,
                None => break,
            }
        }
        recs
    }
    pub fn heights_marked(&self) -> Vec<u64> {
        self.trace.iter().filter(|e| e.op == "height").filter_map(|e| e.class.parse().ok()).collect()
    }
}

pub fn is_log_line(l: &str) -> bool {
    let b = l.as_bytes();
    b.len() > 11 && b[0] == b'[' && b[3] == b':' && b[6] == b':' && b[9] == b']' && b[10] == b' '
}

pub fn parse_trace(text: &str) -> Vec<Ev> {
    let mut v = Vec::new();
    for l in text.lines() {
        let mut t = l.split_whitespace();
        let seq = match t.next().and_then(|x| x.parse::<u64>().ok()) {
            Some(s) => s,
            None => continue,
        };
        let op = t.next().unwrap_or("").to_string();
        let class = t.next().unwrap_or("").to_string();
        let name = t.next().unwrap_or("").to_string();
        v.push(Ev {
            seq,
            op,
            class,
            name,
            raw: l.to_string(),
        });
    }
    v
}

pub struct ExecCtx {
    pub sut: PathBuf,
    /// same sources, plain release settings (no overflow checks / debug assertions); None = not built
    pub sut_plain: Option<PathBuf>,
    pub scratch: PathBuf,
    pub timeout: Duration,
    pub runs_done: AtomicU64,
    pub events_seen: AtomicU64,
    pub run_ns: AtomicU64,
    /// slowest single run (ms)
    pub max_run_ms: AtomicU64,
    /// set after a run hit the wall-clock cap: exploration stops early
    pub abort: std::sync::atomic::AtomicBool,
    /// a timed-out scenario is being repeated: runs get 4x the cap
    pub retry_mode: std::sync::atomic::AtomicBool,
}

static WATCH: Mutex<Vec<(u32, Instant)>> = Mutex::new(Vec::new());
static TIMED_OUT: Mutex<Vec<u32>> = Mutex::new(Vec::new());

pub fn start_watchdog() {
    std::thread::spawn(|| loop {
        std::thread::sleep(Duration::from_millis(200));
        let now = Instant::now();
        let mut w = WATCH.lock().unwrap();
        let mut i = 0;
        while i < w.len() {
            if now >= w[i].1 {
                let pid = w[i].0;
                eprintln!("{}", stall_diagnostics(pid));
                TIMED_OUT.lock().unwrap().push(pid);
                let _ = Command::new("kill").arg("-9").arg(pid.to_string()).status();
                w.swap_remove(i);
            } else {
                i += 1;
            }
        }
    });
}

/// what a run that hit the wall-clock cap was doing (printed before it is killed)
fn stall_diagnostics(pid: u32) -> String {
    let rd = |p: String| fs::read_to_string(p).unwrap_or_default();
    let status = rd(format!("/proc/{}/status", pid));
    let pick = |k: &str| status.lines().find(|l| l.starts_with(k)).unwrap_or("").replace('\t', " ");
    let mut s = format!("STALL pid={} {} {} {} {}", pid, pick("State:"), pick("Threads:"), pick("VmRSS:"), pick("VmSize:"));
    if let Ok(tasks) = fs::read_dir(format!("/proc/{}/task", pid)) {
        for t in tasks.flatten().take(20) {
            let tid = t.file_name().to_string_lossy().into_owned();
            let wchan = rd(format!("/proc/{}/task/{}/wchan", pid, tid));
            let stat = rd(format!("/proc/{}/task/{}/stat", pid, tid));
            let f: Vec<&str> = stat.rsplit(") ").next().unwrap_or("").split_whitespace().collect();
            // after the comm field: state=f[0], utime=f[11], stime=f[12]
            s.push_str(&format!(" [tid={} st={} wchan={} utime={} stime={}]", tid, f.first().unwrap_or(&"?"), wchan.trim(), f.get(11).unwrap_or(&"?"), f.get(12).unwrap_or(&"?")));
        }
    }
    let load = rd("/proc/loadavg".to_string());
    s.push_str(&format!(" loadavg={}", load.trim()));
    s
}

fn read_dir_map(dir: &Path) -> BTreeMap<String, Vec<u8>> {
    let mut m = BTreeMap::new();
    if let Ok(rd) = fs::read_dir(dir) {
        for ent in rd.flatten() {
            let n = ent.file_name().to_string_lossy().into_owned();
            if ent.path().is_file() {
                m.insert(n, fs::read(ent.path()).unwrap_or_default());
            }
        }
    }
    m
}

pub struct Workdir {
    pub root: PathBuf,
}
impl Workdir {
    pub fn new(ctx: &ExecCtx, worker: usize) -> Workdir {
        let root = ctx.scratch.join(format!("w{}", worker));
        let _ = fs::remove_dir_all(&root);
        fs::create_dir_all(&root).expect("scratch dir");
        Workdir { root }
    }
}
impl Drop for Workdir {
    fn drop(&mut self) {
        let _ = fs::remove_dir_all(&self.root);
    }
}

/// spell a directory path the way the run asks for (relative paths are relative to the scratch root = cwd)
fn spell(p: &Path, style: u8) -> String {
    let abs = p.to_string_lossy().into_owned();
    let rel = || {
        // <root>/w<N>/<name...>  →  path relative to <root>/w<N>
        let comps: Vec<String> = p.components().map(|c| c.as_os_str().to_string_lossy().into_owned()).collect();
        let i = comps.iter().rposition(|c| c.starts_with('w') && c[1..].chars().all(|d| d.is_ascii_digit()) && c.len() > 1).unwrap_or(0);
        comps[i + 1..].join("/")
    };
    match style {
        1 => rel(),
        2 => format!("{}/", abs),
        3 => format!("./{}/", rel()),
        _ => abs,
    }
}

pub fn argv_of(scn: &Scenario, r: &RunSpec, data: &Path, dump: &Path) -> Vec<String> {
    let mut a: Vec<String> = if r.omit_coin && scn.coin == "bitcoin" { vec![] } else { vec!["-c".into(), scn.coin.clone()] };
    a.push("-d".into());
    a.push(spell(data, r.path_style));
    if r.verify {
        a.push("--verify".into());
    }
    for _ in 0..r.verbosity {
        a.push("-v".into());
    }
    let spell_height = |h: u64| -> String {
        match r.height_style {
            1 => format!("{:07}", h),
            2 => format!("+{}", h),
            _ => h.to_string(),
        }
    };
    if let Some(s) = r.start {
        a.push("-s".into());
        a.push(spell_height(s));
    }
    if let Some(e) = r.end {
        a.push("-e".into());
        a.push(spell_height(e));
    }
    a.push(r.callback.clone());
    if matches!(r.callback.as_str(), "csvdump" | "unspentcsvdump" | "balances") {
        a.push(spell(dump, r.path_style));
    }
    a
}

/// Executes all runs of the scenario in `wd`. Errors are harness errors.
pub fn exec_scenario(ctx: &ExecCtx, wd: &Workdir, scn: &Scenario, built: &Built) -> Result<Vec<RunOutcome>, String> {
    let dump_default = wd.root.join("dump");
    let immut = scn.params.get("check_immutable").and_then(|v| v.as_bool()).unwrap_or(false);
    let mut outcomes = Vec::with_capacity(scn.runs.len());
    let mut infos: BTreeMap<usize, WorldInfo> = BTreeMap::new();
    for (ri, r) in scn.runs.iter().enumerate() {
        let data = match &r.dir_alias {
            Some(a) => wd.root.join(a).join(format!("data{}", r.layout)),
            None => wd.root.join(format!("data{}", r.layout)),
        };
        // normally a sibling of the data directory; optionally a sub-directory of it
        let dump = if r.dump_in_data { data.join("csv-out") } else { dump_default.clone() };
        if r.fresh_data || !infos.contains_key(&r.layout) {
            let layout = scn.layouts.get(r.layout).ok_or("run refers to missing layout")?;
            let info = build_world(scn, built, layout, &r.disk_faults, &data)?;
            infos.insert(r.layout, info);
        }
        if r.fresh_dump || ri == 0 || !dump.exists() {
            let _ = fs::remove_dir_all(&dump);
            fs::create_dir_all(&dump).map_err(|e| e.to_string())?;
            for p in &scn.dump_pre {
                fs::write(dump.join(&p.name), &p.bytes.0).map_err(|e| e.to_string())?;
            }
        }
        let dump_before = read_dir_map(&dump);
        let (dd_before, ix_before) = if immut {
            (Some(data_digest(&data)?), Some(dump_index_guarded(&data.join("index"), &wd.root.join("ixcopy"))?))
        } else {
            (None, None)
        };
        let plan_path = wd.root.join("plan.txt");
        let trace_path = wd.root.join("trace.txt");
        let out_path = wd.root.join("stdout.txt");
        let err_path = wd.root.join("stderr.txt");
        fs::write(&plan_path, r.plan.to_text()).map_err(|e| e.to_string())?;
        let _ = fs::remove_file(&trace_path);
        let so = fs::File::create(&out_path).map_err(|e| e.to_string())?;
        let se = fs::File::create(&err_path).map_err(|e| e.to_string())?;
        let t0 = Instant::now();
        let bin = match (&ctx.sut_plain, r.plain_build) {
            (Some(p), true) => p,
            _ => &ctx.sut,
        };
        let use_tty = r.tty && Path::new("/usr/bin/script").exists();
        let mut cmd = if use_tty {
            // run under a pseudo-terminal: `script -qec '<cmd>' /dev/null` (exit status of the command is kept)
            let mut line = format!("'{}'", bin.display());
            for a in argv_of(scn, r, &data, &dump) {
                line.push_str(&format!(" '{}'", a.replace('\'', "")));
            }
            let mut c = Command::new("/usr/bin/script");
            c.arg("-qec").arg(line).arg("/dev/null");
            c
        } else {
            let mut c = Command::new(bin);
            c.args(argv_of(scn, r, &data, &dump));
            c
        };
        if let Some(mb) = r.vlimit_mb {
            use std::os::unix::process::CommandExt;
            let bytes = mb * 1024 * 1024;
            unsafe {
                cmd.pre_exec(move || {
                    unsafe extern "C" {
                        fn setrlimit(resource: i32, rlim: *const [u64; 2]) -> i32;
                    }
                    let lim = [bytes, bytes];
                    // RLIMIT_AS = 9 on Linux
                    if unsafe { setrlimit(9, &lim) } != 0 {
                        return Err(std::io::Error::last_os_error());
                    }
                    Ok(())
                });
            }
        }
        let mut child = cmd
            .env("RAYON_NUM_THREADS", r.threads.to_string())
            .env("RBP_SIM_PLAN", &plan_path)
            .env("RBP_SIM_TRACE", &trace_path)
            .env("RUST_BACKTRACE", "0")
            .env("HOME", &wd.root)
            .current_dir(&wd.root)
            .stdin(Stdio::null())
            .stdout(Stdio::from(so))
            .stderr(Stdio::from(se))
            .spawn()
            .map_err(|e| format!("spawn {}: {}", ctx.sut.display(), e))?;
        let pid = child.id();
        let cap = if ctx.retry_mode.load(Ordering::Relaxed) { ctx.timeout * 4 } else { ctx.timeout };
        WATCH.lock().unwrap().push((pid, Instant::now() + cap));
        let status = child.wait().map_err(|e| e.to_string())?;
        WATCH.lock().unwrap().retain(|(p, _)| *p != pid);
        let wall = t0.elapsed();
        if wall.as_millis() > 3000 {
            if let Ok(_) = std::env::var("RBPSIM_SLOW") {
                let _ = fs::write(format!("/tmp/slow-{}.json", scn.index_no), serde_json::to_string(scn).unwrap());
                eprintln!("SLOW run {} ms: scenario {} family {} argv {:?} faults {:?} plan {:?}", wall.as_millis(), scn.index_no, scn.family, argv_of(scn, r, &data, &dump), r.disk_faults, r.plan);
            }
        }
        let timed_out = {
            let mut t = TIMED_OUT.lock().unwrap();
            let was = t.contains(&pid);
            t.retain(|p| *p != pid);
            was
        };
        use std::os::unix::process::ExitStatusExt;
        let exit = if timed_out {
            Exit::Timeout
        } else if let Some(c) = status.code() {
            Exit::Code(c)
        } else {
            Exit::Signal(status.signal().unwrap_or(-1))
        };
        if exit == Exit::Code(99) {
            return Err(format!("hook rejected the plan: {}", String::from_utf8_lossy(&fs::read(&err_path).unwrap_or_default())));
        }
        if let Ok(keep) = std::env::var("RBPSIM_KEEP_TRACE") {
            let _ = fs::copy(&trace_path, format!("{}.{}", keep, ri));
        }
        // runaway I/O (hundreds of MB of trace) is handled like a run that does not terminate
        let runaway = fs::metadata(&trace_path).map(|m| m.len()).unwrap_or(0) > 300_000_000;
        if runaway {
            eprintln!("RUNAWAY scenario {} run {}: I/O trace exceeds 300 MB", scn.index_no, ri);
            let _ = fs::write(&trace_path, b"");
        }
        let exit = if runaway { Exit::Timeout } else { exit };
        let trace = parse_trace(&fs::read_to_string(&trace_path).unwrap_or_default());
        ctx.runs_done.fetch_add(1, Ordering::Relaxed);
        ctx.events_seen.fetch_add(trace.len() as u64, Ordering::Relaxed);
        ctx.run_ns.fetch_add(wall.as_nanos() as u64, Ordering::Relaxed);
        ctx.max_run_ms.fetch_max(wall.as_millis() as u64, Ordering::Relaxed);
        let (dd_after, ix_after) = if immut {
            (Some(data_digest(&data)?), Some(dump_index_guarded(&data.join("index"), &wd.root.join("ixcopy"))?))
        } else {
            (None, None)
        };
        outcomes.push(RunOutcome {
            exit,
            stdout: {
                let raw = fs::read(&out_path).unwrap_or_default();
                if use_tty {
                    // the terminal line discipline turns every "\n" into "\r\n"
                    let mut v = Vec::with_capacity(raw.len());
                    let mut i = 0;
                    while i < raw.len() {
                        if raw[i] == b'\r' && i + 1 < raw.len() && raw[i + 1] == b'\n' {
                            i += 1;
                            continue;
                        }
                        v.push(raw[i]);
                        i += 1;
                    }
                    v
                } else {
                    raw
                }
            },
            stderr: fs::read(&err_path).unwrap_or_default(),
            dump: read_dir_map(&dump),
            dump_before,
            trace,
            info: infos[&r.layout].clone(),
            data_digest_before: dd_before,
            data_digest_after: dd_after,
            index_before: ix_before,
            index_after: ix_after,
            wall,
            start: r.start.unwrap_or(0),
        });
    }
    Ok(outcomes)
}
