#!/bin/bash
# Re-run every seeded change against the quick check of the property it attacks; all must give exit=1.
# usage: tools/regress_seeded.sh [dir ...]   (default: all of seeded/*)    Repo = $RBPSIM_REPO or /repo.
cd "$(dirname "$0")/.." || exit 2
dirs="${@:-$(ls -d seeded/*/)}"
missed=0; n=0
for d in $dirs; do
  d=${d%/}
  [ -f $d/patch.diff ] || continue
  prop=$(python3 -c "import json,re;print(re.match(r'C\d\d',json.load(open('$d/meta.json'))['property']).group(0))")
  line=$(NO_SHRINK=1 tools/try_patch.sh $d/patch.diff $prop 2>&1 | head -1 | cut -c1-200)
  n=$((n+1))
  case "$line" in *"exit=1"*) ;; *) missed=$((missed+1)); echo "MISSED: $line";; esac
  echo "$line"
done
echo "seeded changes: $n, not detected: $missed"
[ $missed -eq 0 ]
