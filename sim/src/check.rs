//! The check driver: seeded exploration on N workers, oracle evaluation,
//! statistics, shrinking, replay files, known findings, evidence.
use crate::desc::*;
use crate::exec::*;
use crate::render::Model;
use crate::util::*;
use serde_json::json;
use std::collections::{BTreeMap, HashSet};
use std::path::{Path, PathBuf};
use std::sync::atomic::{AtomicU64, Ordering};
use std::sync::{Arc, Mutex};
use std::time::{Duration, Instant};

#[derive(Clone, Copy, PartialEq, Eq, Debug)]
pub enum Tier {
    Quick,
    Thorough,
}

#[derive(Clone, Debug)]
pub struct Violation {
    pub class: String,
    pub detail: String,
}
pub fn viol(class: impl Into<String>, detail: impl Into<String>) -> Violation {
    Violation {
        class: class.into(),
        detail: detail.into(),
    }
}

pub trait Prop: Sync + Send {
    fn id(&self) -> &'static str;
    fn level(&self) -> &'static str {
        "exploration"
    }
    fn rule(&self) -> String;
    fn exhaustive_note(&self) -> Option<String> {
        None
    }
    /// number of independent work items in this tier
    fn items(&self, tier: Tier) -> u64;
    /// generate scenarios for one work item and check them through the harness
    fn explore(&self, item: u64, rng: &mut Rng, tier: Tier, h: &mut Harness) -> Result<(), String>;
    /// the oracle — a pure function of the scenario document and what was observed
    fn judge(&self, scn: &Scenario, m: &Model, outs: &[RunOutcome], st: &mut Stats) -> Vec<Violation>;
    /// is this scenario non-trivial for the property (counted in distinct_nontrivial)?
    fn nontrivial(&self, _scn: &Scenario, _outs: &[RunOutcome]) -> bool {
        true
    }
    fn assumptions(&self) -> Vec<String> {
        vec![]
    }
    /// wall-clock cap of one run in seconds (first attempt; the single retry gets 4x)
    fn run_cap_secs(&self, tier: Tier) -> u64 {
        // Properties whose runs are always small get a short first-attempt cap: the expected cost of the
        // index-loading stalls (DESIGN §11.2, tail ~ 1/sqrt(t)) grows with sqrt(cap), and the single retry
        // gets 4x the cap anyway.
        let small = !matches!(self.id(), "C01" | "C07" | "C08" | "C13" | "C15");
        match (tier, small) {
            (Tier::Quick, true) => 15,
            (Tier::Quick, false) => 60,
            (Tier::Thorough, true) => 30,
            (Tier::Thorough, false) => 120,
        }
    }
    /// probes that must be non-zero in the thorough tier (generator reach self-test)
    fn required_probes(&self, _tier: Tier) -> Vec<&'static str> {
        vec![]
    }
}

#[derive(Default, Clone)]
pub struct Stats {
    pub scenarios: u64,
    pub runs: u64,
    pub io_events: u64,
    pub blocks_delivered: u64,
    pub nontrivial: HashSet<u64>,
    pub faults_fired: BTreeMap<String, u64>,
    pub faults_planned_not_reached: u64,
    pub probes: BTreeMap<String, u64>,
    pub abstentions: BTreeMap<String, u64>,
    pub shapes: HashSet<u64>,
    pub fault_phase: HashSet<String>,
    pub samples: Vec<serde_json::Value>,
    pub thread_counts: BTreeMap<usize, u64>,
    pub callbacks: BTreeMap<String, u64>,
    pub coins: BTreeMap<String, u64>,
    pub exhaustive: bool,
}
impl Stats {
    pub fn probe(&mut self, name: &str) {
        *self.probes.entry(name.to_string()).or_insert(0) += 1;
    }
    pub fn probe_n(&mut self, name: &str, n: u64) {
        *self.probes.entry(name.to_string()).or_insert(0) += n;
    }
    pub fn abstain(&mut self, why: &str, n: u64) {
        if n > 0 {
            *self.abstentions.entry(why.to_string()).or_insert(0) += n;
        }
    }
    pub fn fired(&mut self, kind: &str, n: u64) {
        if n > 0 {
            *self.faults_fired.entry(kind.to_string()).or_insert(0) += n;
        }
    }
    fn merge(&mut self, o: Stats) {
        self.scenarios += o.scenarios;
        self.runs += o.runs;
        self.io_events += o.io_events;
        self.blocks_delivered += o.blocks_delivered;
        self.nontrivial.extend(o.nontrivial);
        for (k, v) in o.faults_fired {
            *self.faults_fired.entry(k).or_insert(0) += v;
        }
        self.faults_planned_not_reached += o.faults_planned_not_reached;
        for (k, v) in o.probes {
            *self.probes.entry(k).or_insert(0) += v;
        }
        for (k, v) in o.abstentions {
            *self.abstentions.entry(k).or_insert(0) += v;
        }
        self.shapes.extend(o.shapes);
        for s in o.samples {
            if self.samples.len() < 3 {
                self.samples.push(s);
            }
        }
        self.fault_phase.extend(o.fault_phase);
        for (k, v) in o.thread_counts {
            *self.thread_counts.entry(k).or_insert(0) += v;
        }
        for (k, v) in o.callbacks {
            *self.callbacks.entry(k).or_insert(0) += v;
        }
        for (k, v) in o.coins {
            *self.coins.entry(k).or_insert(0) += v;
        }
    }
}

fn bucket(n: i64) -> u8 {
    if n <= 0 {
        0
    } else {
        (64 - (n as u64).leading_zeros()) as u8
    }
}

/// account for what actually happened in a run's trace
pub fn account_trace(st: &mut Stats, r: &RunSpec, o: &RunOutcome) {
    let mut shape: Vec<u8> = Vec::new();
    let n = o.trace.len().max(1);
    for (i, e) in o.trace.iter().enumerate() {
        let phase = (i * 4 / n).min(3);
        let mut fault: Option<&str> = None;
        match e.op.as_str() {
            "read" => {
                let want = e.num("want").unwrap_or(0);
                let cap = e.num("cap").unwrap_or(want);
                if cap < want {
                    fault = Some("short_read");
                }
                if let Some((false, _)) = e.result() {
                    fault = Some("read_error");
                }
            }
            "write" => {
                let want = e.num("want").unwrap_or(0);
                match e.result() {
                    Some((true, got)) if got < want => fault = Some("short_write"),
                    Some((false, 4)) => fault = Some("write_eintr"),
                    Some((false, 28)) => fault = Some("write_enospc"),
                    Some((false, _)) => fault = Some("write_error"),
                    _ => {}
                }
            }
            "open" | "create" => {
                if let Some((false, n)) = e.result() {
                    fault = Some(if n == 24 { "open_emfile" } else { "open_error" });
                }
            }
            "rename" => {
                if let Some((false, _)) = e.result() {
                    fault = Some("rename_error");
                }
            }
            "seek" => {
                if let Some((false, _)) = e.result() {
                    fault = Some("seek_error");
                }
            }
            "crash" => fault = Some("crash"),
            "signal" => fault = Some("signal_delivered"),
            "height" => st.blocks_delivered += 1,
            _ => {}
        }
        if let Some(f) = fault {
            st.fired(f, 1);
            if !matches!(f, "short_read" | "short_write" | "write_eintr") {
                st.fault_phase.insert(format!("{}@{}", f, phase));
            }
        }
        let okflag = match e.result() {
            Some((ok, _)) => ok as u8,
            None => 2,
        };
        let sz = bucket(e.num("want").unwrap_or(0));
        shape.extend_from_slice(&[e.op.as_bytes()[0], e.class.as_bytes().first().copied().unwrap_or(0), okflag, sz]);
    }
    if r.plan.has_failing() {
        let reached = o.trace.iter().any(|e| e.op == "crash" || e.op == "signal" || matches!(e.result(), Some((false, n)) if n != 4));
        if !reached && r.plan.fdmax.is_none() {
            st.faults_planned_not_reached += 1;
        }
    }
    if !r.disk_faults.is_empty() {
        for f in &r.disk_faults {
            let k = match f {
                DiskFault::RemoveFile { .. } => "disk_file_removed",
                DiskFault::EmptyFile { .. } => "disk_file_emptied",
                DiskFault::Truncate { .. } => "disk_file_truncated",
                DiskFault::PosPastEof { .. } => "disk_offset_past_eof",
                DiskFault::FlipBit { .. } => "disk_bit_flipped",
                DiskFault::SwapActive { .. } | DiskFault::SwapExtra { .. } => "disk_block_swapped",
            };
            st.fired(k, 1);
        }
    }
    let h = sha256_(&shape);
    st.shapes.insert(u64::from_le_bytes(h[..8].try_into().unwrap()));
    if r.path_style > 0 {
        st.probe("env_relative_or_slashed_paths");
    }
    if r.dump_in_data {
        st.probe("env_dump_folder_inside_data_dir");
    }
    if r.vlimit_mb.is_some() {
        st.fired("address_space_limit", 1);
    }
    if r.omit_coin {
        st.probe("env_coin_option_omitted");
    }
    if r.dir_alias.is_some() {
        st.probe("env_coin_named_directory");
    }
    if r.verbosity > 0 {
        st.probe("env_verbose_logging");
    }
    if r.plan.clock_step_ms.is_some() {
        st.probe("env_simulated_clock");
    }
    if r.tty {
        st.probe("env_stdout_is_a_terminal");
    }
    *st.thread_counts.entry(r.threads).or_insert(0) += 1;
    *st.callbacks.entry(r.callback.clone()).or_insert(0) += 1;
    st.io_events += o.trace.len() as u64;
    st.runs += 1;
}

pub fn scenario_hash(scn: &Scenario) -> u64 {
    let v = serde_json::to_vec(scn).unwrap();
    let h = sha256_(&v);
    u64::from_le_bytes(h[..8].try_into().unwrap())
}

/// elide long hex strings in a JSON value so samples stay readable
pub fn elide(v: &serde_json::Value) -> serde_json::Value {
    match v {
        serde_json::Value::String(s) if s.len() > 128 => {
            json!(format!("<{} chars, sha256 {}>", s.len(), &hex(&sha256_(s.as_bytes()))[..16]))
        }
        serde_json::Value::Array(a) => {
            if a.len() > 12 {
                let mut out: Vec<serde_json::Value> = a.iter().take(6).map(elide).collect();
                out.push(json!(format!("… {} more …", a.len() - 7)));
                out.push(elide(&a[a.len() - 1]));
                serde_json::Value::Array(out)
            } else {
                serde_json::Value::Array(a.iter().map(elide).collect())
            }
        }
        serde_json::Value::Object(o) => serde_json::Value::Object(o.iter().map(|(k, v)| (k.clone(), elide(v))).collect()),
        x => x.clone(),
    }
}

fn digest_sink() -> Option<&'static Mutex<std::fs::File>> {
    static SINK: std::sync::OnceLock<Option<Mutex<std::fs::File>>> = std::sync::OnceLock::new();
    SINK.get_or_init(|| std::env::var("RBPSIM_DIGEST").ok().map(|p| Mutex::new(std::fs::OpenOptions::new().create(true).append(true).open(p).expect("digest file"))))
        .as_ref()
}

/// strip what §1 lists as uncontrolled and irrelevant: log timestamps, thread ids, scratch paths
pub fn normalize_text(s: &str, scratch: &str) -> String {
    let mut out = String::new();
    for l in s.lines() {
        let l = if crate::exec::is_log_line(l) { &l[11..] } else { l };
        let mut l = l.replace(scratch, "<scratch>");
        if let Some(i) = l.find("' (") {
            if let Some(j) = l[i..].find(") panicked") {
                l.replace_range(i + 1..i + j + 1, "");
            }
        }
        out.push_str(&l);
        out.push('\n');
    }
    out
}

/// the plain-release build of the same tree, if ./check built it (…/sut-plain/release/rusty-blockparser)
pub fn plain_sut(sut: &Path) -> Option<PathBuf> {
    let s = sut.to_string_lossy().replace("/sut/release/", "/sut-plain/release/");
    let p = PathBuf::from(s);
    if p != sut && p.is_file() {
        Some(p)
    } else {
        None
    }
}

pub const ABORTED: &str = "exploration aborted after a run hit the wall-clock cap";

pub struct Harness<'a> {
    pub prop: &'a dyn Prop,
    pub ctx: &'a ExecCtx,
    pub wd: Workdir,
    pub stats: Stats,
    pub violations: Vec<(Scenario, Violation)>,
    pub seed: u64,
    pub item: u64,
    pub sub: u64,
    pub max_violations: usize,
}

impl<'a> Harness<'a> {
    /// Build the model, execute, judge, account. Returns outcomes for follow-up scenarios.
    pub fn check(&mut self, scn: &mut Scenario) -> Result<(Vec<RunOutcome>, bool), String> {
        scn.seed = self.seed;
        if self.item % 4 == 3 && self.prop.id() != "C14" && self.ctx.sut_plain.is_some() {
            // configuration dimension: the same scenario stream also exercises the plain release build
            for r in scn.runs.iter_mut() {
                r.plain_build = true;
            }
            self.stats.probe("plain_release_build_run");
        }
        scn.index_no = self.item * 1_000_000 + self.sub;
        self.sub += 1;
        if self.ctx.abort.load(Ordering::Relaxed) {
            return Err(ABORTED.to_string());
        }
        if let Ok(want) = std::env::var("RBPSIM_DUMP_SCN") {
            if want == scn.index_no.to_string() {
                let _ = std::fs::write(format!("/tmp/scn-{}-{}.json", scn.property, scn.index_no), serde_json::to_string(&*scn).unwrap());
            }
        }
        let model = Model::new(scn);
        let mut outs = exec_scenario(self.ctx, &self.wd, scn, &model.built)?;
        if outs.iter().any(|o| o.exit == Exit::Timeout) {
            // A run that hits the cap is repeated once before it is believed: on an overloaded machine
            // a run was seen to stall for minutes (observed under heavy parallel compilation and in the
            // acceptance environment) although the same run takes milliseconds — only a run that stalls
            // twice in a row is reported (a genuine hang is deterministic and will).
            self.stats.probe("stalled_run_retried");
            self.ctx.retry_mode.store(true, Ordering::Relaxed);
            let again = exec_scenario(self.ctx, &self.wd, scn, &model.built);
            self.ctx.retry_mode.store(false, Ordering::Relaxed);
            outs = again?;
        }
        for (ri, (r, o)) in scn.runs.iter().zip(outs.iter()).enumerate() {
            account_trace(&mut self.stats, r, o);
            if o.exit == Exit::Timeout {
                // liveness: every run must terminate; the cap is ~10^4 x a normal run
                let mut c = scn.clone();
                c.runs = vec![r.clone()];
                c.runs[0].fresh_data = true;
                c.runs[0].fresh_dump = true;
                self.violations.push((
                    c,
                    viol(format!("{}/timeout", self.prop.id()), format!("run {} did not terminate within {} s", ri, self.ctx.timeout.as_secs())),
                ));
                self.ctx.abort.store(true, Ordering::Relaxed);
                return Err(ABORTED.to_string());
            }
        }
        self.stats.scenarios += 1;
        *self.stats.coins.entry(scn.coin.clone()).or_insert(0) += 1;
        let vs = self.prop.judge(scn, &model, &outs, &mut self.stats);
        if self.prop.nontrivial(scn, &outs) {
            self.stats.nontrivial.insert(scenario_hash(scn));
        }
        if self.stats.samples.len() < 3 && (self.sub == 1 || self.stats.samples.is_empty()) {
            self.stats.samples.push(elide(&serde_json::to_value(&*scn).unwrap()));
        }
        if let Some(d) = digest_sink() {
            // determinism proof (DESIGN §7.1): one line per scenario, independent of worker count and timing
            let mut line = format!("{} {} {:016x}", self.prop.id(), scn.index_no, scenario_hash(scn));
            for (r, o) in scn.runs.iter().zip(outs.iter()) {
                // blk files still open at exit are closed in HashMap (per-process random) order when the
                // parser is dropped: every burst of consecutive blk close events is compared as a set
                let mut t = String::new();
                let mut burst: Vec<&str> = Vec::new();
                // unspent / balances rows are written in the process's HashMap order (std RandomState is
                // seeded by the OS and is not under the seam): the sizes and number of their write events
                // vary from process to process, so only the non-write events of those runs are compared
                let hash_ordered = matches!(r.callback.as_str(), "unspentcsvdump" | "balances");
                for e in &o.trace {
                    if hash_ordered && e.class == "out" && e.op == "write" {
                        continue;
                    }
                    if e.op == "close" && e.class == "blk" {
                        burst.push(e.name.as_str());
                        continue;
                    }
                    if !burst.is_empty() {
                        burst.sort();
                        t.push_str(&format!("close-burst {}\n", burst.join(",")));
                        burst.clear();
                    }
                    if hash_ordered && e.op == "crash" {
                        // the kill line of a write quotes the size of that (row-order dependent) write
                        t.push_str("crash");
                    } else if hash_ordered {
                        // sequence numbers shift with the number of write events
                        t.push_str(e.raw.splitn(2, ' ').nth(1).unwrap_or(""));
                    } else {
                        t.push_str(&e.raw);
                    }
                    t.push('\n');
                }
                if !burst.is_empty() {
                    burst.sort();
                    t.push_str(&format!("close-burst {}\n", burst.join(",")));
                }
                let norm = crate::oracle::normalized_output(r, o).join("\u{1}");
                let err = normalize_text(&o.stderr_str(), &self.wd.root.to_string_lossy());
                line.push_str(&format!(
                    " [{:?} t={} o={} e={}]",
                    o.exit,
                    &hex(&sha256_(t.as_bytes()))[..12],
                    &hex(&sha256_(norm.as_bytes()))[..12],
                    &hex(&sha256_(err.as_bytes()))[..12]
                ));
            }
            let mut classes: Vec<&str> = vs.iter().map(|v| v.class.as_str()).collect();
            classes.sort();
            line.push_str(&format!(" v={:?}\n", classes));
            use std::io::Write;
            let _ = d.lock().unwrap().write_all(line.as_bytes());
        }
        let bad = !vs.is_empty();
        for v in vs {
            if self.violations.len() < self.max_violations {
                self.violations.push((scn.clone(), v));
            }
        }
        Ok((outs, bad))
    }
}

// ----------------------------------------------------------------------------

#[derive(serde::Deserialize, Clone, Debug)]
pub struct KnownFinding {
    pub status: String,
    pub property: String,
    #[serde(default)]
    pub class: String,
    #[serde(default)]
    pub what: String,
    #[serde(default)]
    pub commit: String,
}

pub fn load_known(verif: &Path) -> Vec<KnownFinding> {
    let p = verif.join("known_findings.json");
    match std::fs::read_to_string(&p) {
        Ok(t) => serde_json::from_str(&t).unwrap_or_else(|e| {
            eprintln!("harness error: cannot parse {}: {}", p.display(), e);
            std::process::exit(2)
        }),
        Err(_) => vec![],
    }
}

pub struct CheckResult {
    pub violations: u64,
    pub known_met: Vec<String>,
}

pub struct CheckEnv {
    pub verif: PathBuf,
    pub sut: PathBuf,
    pub scratch: PathBuf,
    pub workers: usize,
    pub seed: u64,
    pub tier: Tier,
    pub self_exe: PathBuf,
    pub no_shrink: bool,
}

pub fn run_check(prop: &dyn Prop, env: &CheckEnv) -> i32 {
    let t0 = Instant::now();
    println!("VERIF_SEED={} property={} tier={:?} workers={}", env.seed, prop.id(), env.tier, env.workers);
    let ctx = ExecCtx {
        sut: env.sut.clone(),
        sut_plain: plain_sut(&env.sut),
        scratch: env.scratch.clone(),
        timeout: Duration::from_secs(prop.run_cap_secs(env.tier)),
        runs_done: AtomicU64::new(0),
        events_seen: AtomicU64::new(0),
        run_ns: AtomicU64::new(0),
        max_run_ms: AtomicU64::new(0),
        abort: std::sync::atomic::AtomicBool::new(false),
        retry_mode: std::sync::atomic::AtomicBool::new(false),
    };
    let mut n_items = prop.items(env.tier);
    if let Some(l) = std::env::var("RBPSIM_ITEM_LIMIT").ok().and_then(|x| x.parse::<u64>().ok()) {
        n_items = n_items.min(l);
    }
    let next = AtomicU64::new(0);
    let merged: Mutex<Stats> = Mutex::new(Stats::default());
    let all_viol: Mutex<Vec<(Scenario, Violation)>> = Mutex::new(Vec::new());
    let herr: Mutex<Option<String>> = Mutex::new(None);
    let ctx = Arc::new(ctx);
    std::thread::scope(|s| {
        for w in 0..env.workers {
            let ctx = ctx.clone();
            let next = &next;
            let merged = &merged;
            let all_viol = &all_viol;
            let herr = &herr;
            s.spawn(move || {
                let mut h = Harness {
                    prop,
                    ctx: &ctx,
                    wd: Workdir::new(&ctx, w),
                    stats: Stats::default(),
                    violations: vec![],
                    seed: env.seed,
                    item: 0,
                    sub: 0,
                    max_violations: 200,
                };
                loop {
                    let i = next.fetch_add(1, Ordering::SeqCst);
                    if i >= n_items || herr.lock().unwrap().is_some() {
                        break;
                    }
                    let mut rng = Rng::stream(env.seed, prop.id(), i);
                    h.item = i;
                    h.sub = 0;
                    if let Err(e) = prop.explore(i, &mut rng, env.tier, &mut h) {
                        if e != ABORTED {
                            *herr.lock().unwrap() = Some(e);
                        }
                        break;
                    }
                }
                merged.lock().unwrap().merge(std::mem::take(&mut h.stats));
                all_viol.lock().unwrap().append(&mut h.violations);
            });
        }
    });
    if let Some(e) = herr.lock().unwrap().take() {
        println!("HARNESS-ERROR property={} {}", prop.id(), e);
        return 2;
    }
    let mut stats = merged.into_inner().unwrap();
    let mut viols = all_viol.into_inner().unwrap();
    viols.sort_by(|a, b| (a.0.index_no, &a.1.class).cmp(&(b.0.index_no, &b.1.class)));

    // ---- group by class, shrink the first of each, write replay files
    let known = load_known(&env.verif);
    let mut by_class: BTreeMap<String, Vec<(Scenario, Violation)>> = BTreeMap::new();
    for v in viols {
        by_class.entry(v.1.class.clone()).or_default().push(v);
    }
    let mut n_viol = 0u64;
    let mut known_met = Vec::new();
    let mut exit = 0;
    let replays = env.verif.join("replays");
    let _ = std::fs::create_dir_all(&replays);
    let mut viol_lines = Vec::new();
    let mut not_reproduced = 0u32;
    for (class, list) in &by_class {
        if let Some(k) = known.iter().find(|k| k.status == "known" && k.property == prop.id() && &k.class == class) {
            println!("KNOWN-FINDING: property={} {} {} (met {} times)", prop.id(), class, k.what, list.len());
            known_met.push(class.clone());
            // maintainer tool (never during a registered check): write a minimised replay backing the finding
            if std::env::var("RBPSIM_WRITE_FINDINGS").is_ok() {
                let (scn, v) = &list[0];
                let wd = Workdir::new(&ctx, 1001);
                let mut small = scn.clone();
                small.class = Some(class.clone());
                small.detail = Some(v.detail.clone());
                small = crate::shrink::shrink(prop, &ctx, &wd, small, class);
                let dir = env.verif.join("findings");
                let _ = std::fs::create_dir_all(&dir);
                let name = class.replace('/', "_");
                std::fs::write(dir.join(format!("{}.json", name)), serde_json::to_string_pretty(&small).unwrap()).expect("write finding");
            }
            continue;
        }
        n_viol += list.len() as u64;
        // A violation produced by real thread interleaving may need several attempts and not every
        // instance reproduces equally well: try up to 4 instances of the class; for each, first the
        // minimised scenario, then the scenario exactly as it was explored.
        let sched = class.starts_with("C13") || class.contains("schedule");
        let tries = if sched { 4 } else { 4 };
        let ch = hex(&sha256_(class.as_bytes())[..3]);
        let mut reproduced = false;
        let mut path = replays.join("none");
        let mut v = &list[0].1;
        'cands: for (ci, (scn, vv)) in list.iter().take(4).enumerate() {
            v = vv;
            let wd = Workdir::new(&ctx, 1000);
            let mut orig = scn.clone();
            orig.class = Some(class.clone());
            orig.detail = Some(vv.detail.clone());
            let mut variants = Vec::new();
            if !env.no_shrink && !class.ends_with("/timeout") {
                variants.push(crate::shrink::shrink(prop, &ctx, &wd, orig.clone(), class));
            }
            variants.push(orig);
            drop(wd);
            for (vi, small) in variants.iter().enumerate() {
                path = replays.join(format!("{}-{}-{}-{}{}.json", prop.id(), env.seed, scn.index_no, ch, if ci + vi > 0 { format!("-{}{}", ci, vi) } else { String::new() }));
                std::fs::write(&path, serde_json::to_string_pretty(small).unwrap()).expect("write replay");
                // schedule-dependent classes showed up under 16-way contention during exploration: replay
                // them the same way (batches of 16 concurrent fresh processes), others one at a time
                // any class can turn out to be schedule-induced (a race in a callback shows up as a wrong
                // total, not under a "schedule" name): when four quiet replays do not reproduce it and the
                // scenario uses more than one worker, two contended batches follow
                let multi = small.runs.iter().any(|r| r.threads > 1);
                let plan: Vec<usize> = if sched { vec![16; tries] } else if multi { vec![1, 1, 1, 1, 16, 16] } else { vec![1; tries] };
                for batch in plan {
                    let mut kids = Vec::new();
                    for _ in 0..batch {
                        if let Ok(c) = std::process::Command::new(&env.self_exe)
                            .arg("replay")
                            .arg(&path)
                            .env("RBPSIM_SUT", &env.sut)
                            .env("RBPSIM_QUIET", "1")
                            .stdout(std::process::Stdio::null())
                            .spawn()
                        {
                            kids.push(c);
                        }
                    }
                    for mut c in kids {
                        if let Ok(st) = c.wait() {
                            if st.code() == Some(1) {
                                reproduced = true;
                            }
                        }
                    }
                    if reproduced {
                        break 'cands;
                    }
                }
            }
        }
        if !reproduced {
            println!("NOT-REPRODUCED property={} violation class {} ({} occurrences) did not reproduce from {} in a fresh process", prop.id(), class, list.len(), path.display());
            not_reproduced += 1;
            continue;
        }
        println!("violation class={} count={} first: {}", class, list.len(), v.detail.lines().next().unwrap_or(""));
        viol_lines.push(format!("VIOLATION property={} replay={}", prop.id(), path.display()));
        if exit == 0 {
            exit = 1;
        }
    }

    if not_reproduced > 0 && exit == 0 {
        println!("HARNESS-ERROR property={} {} violation class(es) seen during exploration did not reproduce on replay", prop.id(), not_reproduced);
        exit = 2;
    }
    // ---- generator reach self-test (thorough tier)
    for p in prop.required_probes(env.tier) {
        if stats.probes.get(p).copied().unwrap_or(0) == 0 {
            if exit == 0 {
                println!("HARNESS-ERROR property={} probe '{}' never hit: generator no longer reaches what the property is about", prop.id(), p);
                exit = 2;
            } else {
                // a violation was found and stands; exploration may have stopped before this probe's turn
                println!("NOTE property={} probe '{}' not hit in this (violating) run", prop.id(), p);
            }
        }
    }

    // ---- evidence
    let wall = t0.elapsed().as_secs_f64();
    let runs = stats.runs;
    if prop.exhaustive_note().is_some() {
        stats.exhaustive = true;
    }
    let ev = json!({
        "property_id": prop.id(),
        "tier": if env.tier == Tier::Quick { "quick" } else { "thorough" },
        "seed": env.seed,
        "level": prop.level(),
        "coverage": {
            "evaluations": stats.scenarios,
            "distinct_nontrivial": stats.nontrivial.len(),
            "rule": prop.rule(),
            "samples": stats.samples,
            "exhaustive": stats.exhaustive,
            "exhaustive_dimension": prop.exhaustive_note(),
            "simulated_runs": runs,
            "runs_per_hour": if wall > 0.0 { (runs as f64 / wall * 3600.0) as u64 } else { 0 },
            "work_items": n_items,
            "logical_steps": { "io_events": stats.io_events, "blocks_delivered": stats.blocks_delivered,
                "note": "no clock exists in this system (DESIGN §0): simulated time is reported as logical steps" },
            "faults_fired": stats.faults_fired,
            "faults_planned_not_reached": stats.faults_planned_not_reached,
            "probes": stats.probes,
            "distinct_behaviours": { "trace_shapes": stats.shapes.len(), "fault_kind_x_phase": stats.fault_phase.len(),
                "measure": "hash of the sequence of (operation, file class, outcome, log2 size bucket) per run; fault kind x quarter of the run in which it fired" },
            "abstentions": stats.abstentions,
            "thread_counts": stats.thread_counts.iter().map(|(k,v)| (k.to_string(), *v)).collect::<BTreeMap<String,u64>>(),
            "callbacks": stats.callbacks,
            "coins": stats.coins,
            "components": {
                "real": "rusty-blockparser binary built from /repo's working tree with --features verif-sim (clap, rayon, rusty-leveldb, seek_bufread, bitcoin), kernel tmpfs",
                "shim": "common::simio File/rename wrappers (pass-through + fault plan), abort() as kill",
                "stub": "none",
                "not_under_seam": "LevelDB's own file I/O, read_dir, Path::exists, stdout/stderr"
            },
            "known_findings_met": known_met,
            "slowest_run_ms": ctx.max_run_ms.load(Ordering::Relaxed),
            "run_cap_s": prop.run_cap_secs(env.tier),
            "sut_avg_ms": if runs > 0 { ctx.run_ns.load(Ordering::Relaxed) as f64 / 1e6 / runs as f64 } else { 0.0 },
        },
        "assumptions": prop.assumptions(),
        "wall_s": wall,
        "violations": n_viol,
    });
    let evdir = env.verif.join("evidence");
    let _ = std::fs::create_dir_all(&evdir);
    std::fs::write(evdir.join(format!("{}.json", prop.id())), serde_json::to_string_pretty(&ev).unwrap()).expect("write evidence");
    println!(
        "property={} scenarios={} runs={} distinct_nontrivial={} wall={:.1}s violations={} known={}",
        prop.id(),
        stats.scenarios,
        runs,
        stats.nontrivial.len(),
        wall,
        n_viol,
        known_met.len()
    );
    for l in viol_lines {
        println!("{}", l);
    }
    exit
}

/// replay one scenario document; exit 1 if it violates (same class if recorded)
pub fn replay(prop: &dyn Prop, sut: &Path, scratch: &Path, scn: &Scenario) -> i32 {
    let ctx = ExecCtx {
        sut: sut.to_path_buf(),
        sut_plain: plain_sut(sut),
        scratch: scratch.to_path_buf(),
        timeout: Duration::from_secs(240),
        runs_done: AtomicU64::new(0),
        events_seen: AtomicU64::new(0),
        run_ns: AtomicU64::new(0),
        max_run_ms: AtomicU64::new(0),
        abort: std::sync::atomic::AtomicBool::new(false),
        retry_mode: std::sync::atomic::AtomicBool::new(false),
    };
    let wd = Workdir::new(&ctx, 0);
    let model = Model::new(scn);
    let outs = match exec_scenario(&ctx, &wd, scn, &model.built) {
        Ok(o) => o,
        Err(e) => {
            println!("HARNESS-ERROR replay: {}", e);
            return 2;
        }
    };
    let mut st = Stats::default();
    let mut vs = prop.judge(scn, &model, &outs, &mut st);
    if outs.iter().any(|o| o.exit == Exit::Timeout) {
        vs.push(viol(format!("{}/timeout", prop.id()), "run did not terminate within the cap"));
    }
    let quiet = std::env::var("RBPSIM_QUIET").is_ok();
    if !quiet {
        for (i, o) in outs.iter().enumerate() {
            println!("run {}: argv={:?} threads={} exit={:?} events={}", i, argv_of(scn, &scn.runs[i], Path::new("<data>"), Path::new("<dump>")), scn.runs[i].threads, o.exit, o.trace.len());
        }
    }
    let mut hit = false;
    for v in &vs {
        if !quiet {
            println!("violation class={} detail={}", v.class, v.detail);
        }
        if scn.class.as_ref().map(|c| *c == v.class).unwrap_or(true) {
            hit = true;
        }
    }
    // schedule-dependent classes (real rayon interleaving, DESIGN §2.6): one quiet run often does not show
    // them; repeat under 16-way contention like the exploration that found them
    let sched = scn.class.as_ref().map(|c| c.starts_with("C13") || c.contains("schedule")).unwrap_or(false);
    if !hit && sched && std::env::var("RBPSIM_QUIET").is_err() {
        for round in 0..6 {
            let found = std::sync::atomic::AtomicBool::new(false);
            std::thread::scope(|sc| {
                for w in 0..16 {
                    let ctx = &ctx;
                    let found = &found;
                    let model = &model;
                    sc.spawn(move || {
                        let wd = Workdir::new(ctx, 100 + w);
                        if let Ok(o) = exec_scenario(ctx, &wd, scn, &model.built) {
                            let mut st = Stats::default();
                            if prop.judge(scn, model, &o, &mut st).iter().any(|v| scn.class.as_ref().map(|c| *c == v.class).unwrap_or(true)) {
                                found.store(true, Ordering::Relaxed);
                            }
                        }
                    });
                }
            });
            if found.load(Ordering::Relaxed) {
                println!("reproduced under 16-way contention in round {}", round + 1);
                hit = true;
                break;
            }
        }
    }
    if hit {
        println!("VIOLATION property={} replay=<this file>", prop.id());
        1
    } else {
        if !quiet {
            println!("no violation{}", if vs.is_empty() { "" } else { " of the recorded class" });
        }
        0
    }
}
