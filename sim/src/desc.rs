//! The scenario document: an explicit, self-contained description of one
//! simulated experiment (world + runs). It *is* the replay file.
use crate::util::{hex, unhex};
use serde::de::Error as _;
use serde::{Deserialize, Deserializer, Serialize, Serializer};

/// Byte string; serialised as hex, or `{fill,len}` when it is one repeated byte
/// and long (keeps replay files readable).
#[derive(Clone, PartialEq, Eq, Default, Debug, Hash)]
pub struct Bytes(pub Vec<u8>);

#[derive(Serialize, Deserialize)]
#[serde(untagged)]
enum BytesRepr {
    Hex(String),
    Fill { fill: u8, len: usize },
}

impl Serialize for Bytes {
    fn serialize<S: Serializer>(&self, s: S) -> Result<S::Ok, S::Error> {
        let b = &self.0;
        if b.len() >= 64 && b.iter().all(|x| *x == b[0]) {
            BytesRepr::Fill {
                fill: b[0],
                len: b.len(),
            }
            .serialize(s)
        } else {
            BytesRepr::Hex(hex(b)).serialize(s)
        }
    }
}
impl<'de> Deserialize<'de> for Bytes {
    fn deserialize<D: Deserializer<'de>>(d: D) -> Result<Self, D::Error> {
        match BytesRepr::deserialize(d)? {
            BytesRepr::Hex(h) => unhex(&h).map(Bytes).map_err(D::Error::custom),
            BytesRepr::Fill { fill, len } => Ok(Bytes(vec![fill; len])),
        }
    }
}
impl From<Vec<u8>> for Bytes {
    fn from(v: Vec<u8>) -> Self {
        Bytes(v)
    }
}

#[derive(Clone, Serialize, Deserialize, PartialEq, Eq, Debug, Hash)]
pub struct InDesc {
    /// previous txid in internal (serialised) byte order
    pub prev_txid: Bytes,
    pub prev_index: u32,
    pub script_sig: Bytes,
    pub sequence: u32,
    #[serde(default, skip_serializing_if = "Vec::is_empty")]
    pub witness: Vec<Bytes>,
}

#[derive(Clone, Serialize, Deserialize, PartialEq, Eq, Debug, Hash)]
pub struct OutDesc {
    pub value: u64,
    pub script: Bytes,
}

#[derive(Clone, Serialize, Deserialize, PartialEq, Eq, Debug, Hash)]
pub struct TxDesc {
    pub version: u32,
    /// serialised in segwit form (marker 0x00, flag 0x01, witness stacks)
    #[serde(default)]
    pub segwit: bool,
    pub inputs: Vec<InDesc>,
    pub outputs: Vec<OutDesc>,
    pub locktime: u32,
    /// minimum byte width (1,3,5,9) of every CompactSize inside the txid-covered part of this tx;
    /// 0/1 = canonical. Wider-than-necessary encodings are kept verbatim by the program (VarUint.buf)
    /// and the txid is the hash of the bytes as stored.
    #[serde(default, skip_serializing_if = "is_zero_u8")]
    pub cs_width: u8,
}
fn is_zero_u8(x: &u8) -> bool {
    *x == 0
}

#[derive(Clone, Serialize, Deserialize, PartialEq, Eq, Debug, Hash)]
pub struct MerkleBranchDesc {
    pub hashes: Vec<Bytes>,
    pub mask: u32,
}

#[derive(Clone, Serialize, Deserialize, PartialEq, Eq, Debug, Hash)]
pub struct AuxPowDesc {
    pub coinbase_tx: TxDesc,
    pub parent_hash: Bytes,
    pub coinbase_branch: MerkleBranchDesc,
    pub chain_branch: MerkleBranchDesc,
    /// 80 raw bytes
    pub parent_header: Bytes,
}

#[derive(Clone, Serialize, Deserialize, PartialEq, Eq, Debug, Hash)]
pub struct BlockDesc {
    pub version: u32,
    /// None = hash of the preceding block of the active chain (zero for the first)
    #[serde(default, skip_serializing_if = "Option::is_none")]
    pub prev: Option<Bytes>,
    /// None = merkle root of the txids
    #[serde(default, skip_serializing_if = "Option::is_none")]
    pub merkle: Option<Bytes>,
    pub time: u32,
    pub bits: u32,
    pub nonce: u32,
    #[serde(default, skip_serializing_if = "Option::is_none")]
    pub auxpow: Option<AuxPowDesc>,
    pub txs: Vec<TxDesc>,
}

/// A block that is not part of the active chain: a competitor in the index,
/// or a foreign / unindexed block lying in a blk file.
#[derive(Clone, Serialize, Deserialize, PartialEq, Eq, Debug, Hash)]
pub struct ExtraBlock {
    pub block: BlockDesc,
    /// "stale-unconnected-data" | "failed-data" | "reorged-out-data" | "header-only" | "foreign"
    pub kind: String,
    /// index record, if any
    #[serde(default, skip_serializing_if = "Option::is_none")]
    pub index: Option<ExtraIndex>,
    /// For prev=None: height whose active predecessor this block builds on
    /// (prev = hash of active block at `parent_height`), else zero hash.
    #[serde(default, skip_serializing_if = "Option::is_none")]
    pub parent_height: Option<u64>,
    /// or: builds on another extra block (reorged-out branches of length >1)
    #[serde(default, skip_serializing_if = "Option::is_none")]
    pub parent_extra: Option<usize>,
}

#[derive(Clone, Serialize, Deserialize, PartialEq, Eq, Debug, Hash)]
pub struct ExtraIndex {
    pub height: u64,
    pub status: u64,
}

#[derive(Clone, Serialize, Deserialize, PartialEq, Eq, Debug, Hash)]
#[serde(tag = "t", rename_all = "lowercase")]
pub enum Seg {
    /// active-chain block by position in `chain`
    Active { i: usize },
    /// extra block by position in `extras`
    Extra { i: usize },
    Garbage { bytes: Bytes },
    Zero { n: u64 },
    /// sparse hole: seek forward without writing
    Hole { n: u64 },
}

#[derive(Clone, Serialize, Deserialize, PartialEq, Eq, Debug, Hash)]
pub struct BlkFileDesc {
    pub number: u64,
    /// zero-padded digits in the file name (Bitcoin Core uses 5)
    pub width: usize,
    pub segs: Vec<Seg>,
    /// the entry in the data directory is a symbolic link (absolute target, same file name) to the real
    /// file kept in a sibling directory — e.g. old blk files moved to a bigger disk
    #[serde(default, skip_serializing_if = "is_false")]
    pub symlink: bool,
}
fn is_false(b: &bool) -> bool {
    !*b
}

#[derive(Clone, Serialize, Deserialize, PartialEq, Eq, Debug, Hash, Default)]
pub struct ExtraFile {
    pub name: String,
    pub bytes: Bytes,
    #[serde(default)]
    pub is_dir: bool,
    /// a symbolic link with this target (dangling, self-referential, or to a directory)
    #[serde(default, skip_serializing_if = "Option::is_none")]
    pub symlink_to: Option<String>,
}

#[derive(Clone, Serialize, Deserialize, PartialEq, Eq, Debug, Hash, Default)]
pub struct Layout {
    pub files: Vec<BlkFileDesc>,
    #[serde(default, skip_serializing_if = "Option::is_none")]
    pub xor_key: Option<Bytes>,
    #[serde(default, skip_serializing_if = "Vec::is_empty")]
    pub extra_files: Vec<ExtraFile>,
    /// the four bytes in front of each size prefix (never read by the program): 0 = the coin's magic,
    /// 1 = zeros, 2 = another network's magic, 3 = per-block garbage
    #[serde(default, skip_serializing_if = "is_zero_u8")]
    pub magic_mode: u8,
    /// xor.dat is a symbolic link (absolute target in the sibling directory)
    #[serde(default, skip_serializing_if = "is_false")]
    pub xor_symlink: bool,
    /// the target of every symlinked blk file is itself a link to a content-addressed name
    /// (`objects/SHA256-…`, as git-annex / stow / dedup stores do): the blk number is in the entry's name only
    #[serde(default, skip_serializing_if = "is_false")]
    pub link_chain: bool,
    /// an unrelated (stale) xor.dat lying next to the targets of symlinked blk files
    #[serde(default, skip_serializing_if = "Option::is_none")]
    pub side_xor: Option<Bytes>,
}

#[derive(Clone, Serialize, Deserialize, PartialEq, Eq, Debug, Hash)]
#[serde(tag = "t", rename_all = "snake_case")]
pub enum DiskFault {
    RemoveFile { height: u64 },
    EmptyFile { height: u64 },
    /// truncate the file holding block `height` at `off` bytes after the start of
    /// the block's size prefix
    Truncate { height: u64, off: u64 },
    /// index record of `height` points beyond the end of its file
    PosPastEof { height: u64 },
    /// flip one bit of the stored block (offset within the block payload)
    FlipBit { height: u64, off: u64, bit: u8 },
    /// the index record of `height` points at the stored bytes of another block
    SwapActive { height: u64, with_height: u64 },
    SwapExtra { height: u64, with_extra: usize },
}

#[derive(Clone, Serialize, Deserialize, PartialEq, Eq, Debug, Hash, Default)]
pub struct IndexOpts {
    /// "log" | "flush" | "multi" | "compact"
    #[serde(default)]
    pub storage: String,
    /// client version written as first VarInt of every record
    #[serde(default)]
    pub client_version: u64,
    /// extra non-block keys (key, value)
    #[serde(default, skip_serializing_if = "Vec::is_empty")]
    pub extra_keys: Vec<(Bytes, Bytes)>,
    /// seed for insertion order shuffle
    #[serde(default)]
    pub order_seed: u64,
    /// number of tx field: if false write 0 (value is ignored by the program)
    #[serde(default)]
    pub undo_pos_base: u64,
    /// extra status bits OR-ed into every active-chain record (BLOCK_OPT_WITNESS = 128, the reserved /
    /// formerly ASSUMED_VALID bit = 256); the validity level and HAVE_DATA|HAVE_UNDO stay as they are
    #[serde(default, skip_serializing_if = "is_zero_u64")]
    pub active_extra_status: u64,
    /// status bits cleared in active-chain records above height 0 (only HAVE_UNDO = 16 and validity-level
    /// bits make sense: a record without HAVE_DATA is not an active block for the program)
    #[serde(default, skip_serializing_if = "is_zero_u64")]
    pub active_clear_status: u64,
    /// the nTx field of block records (ignored by the program): 0 = true count, 1 = zero, 2 = count + 1,
    /// 3 = garbage derived from the hash
    #[serde(default, skip_serializing_if = "is_zero_u8")]
    pub ntx_mode: u8,
    /// (height, 32-byte hash): the index key of that active block is this hash instead of the hash of
    /// the stored header (a header that differs from the indexed one outside prev/merkle)
    #[serde(default, skip_serializing_if = "Vec::is_empty")]
    pub key_overrides: Vec<(u64, Bytes)>,
    /// write Bitcoin Core's per-file info records ('f' + file number) and the last-file record ('l'),
    /// computed from every block stored in each file (stale ones included, as Core counts them)
    #[serde(default, skip_serializing_if = "is_false")]
    pub file_info: bool,
    /// active records below this height are written as a pruned node keeps them: validity level only, no
    /// HAVE_DATA / HAVE_UNDO, no file number or offsets (their hashes still link the first processed block)
    #[serde(default, skip_serializing_if = "is_zero_u64")]
    pub pruned_below: u64,
    /// single active heights whose record is written without block data (status = validity level only)
    #[serde(default, skip_serializing_if = "Vec::is_empty")]
    pub pruned_at: Vec<u64>,
}
fn is_zero_u64(x: &u64) -> bool {
    *x == 0
}

#[derive(Clone, Serialize, Deserialize, PartialEq, Eq, Debug, Hash)]
pub struct PointFail {
    pub at: u64,
    pub errno: i32,
    #[serde(default, skip_serializing_if = "Option::is_none")]
    pub after: Option<u64>,
    /// transient: only this one call fails (failw only); the next attempt would succeed
    #[serde(default, skip_serializing_if = "is_false")]
    pub once: bool,
}

#[derive(Clone, Serialize, Deserialize, PartialEq, Eq, Debug, Hash, Default)]
pub struct Plan {
    #[serde(default, skip_serializing_if = "Option::is_none")]
    pub writer_cap: Option<usize>,
    #[serde(default, skip_serializing_if = "Vec::is_empty")]
    pub chunk_blk: Vec<usize>,
    #[serde(default, skip_serializing_if = "Vec::is_empty")]
    pub chunk_xor: Vec<usize>,
    #[serde(default, skip_serializing_if = "Vec::is_empty")]
    pub wshort: Vec<usize>,
    #[serde(default)]
    pub weintr: u64,
    #[serde(default, skip_serializing_if = "Option::is_none")]
    pub fdmax: Option<usize>,
    #[serde(default, skip_serializing_if = "Vec::is_empty")]
    pub fails: Vec<PointFail>,
    #[serde(default, skip_serializing_if = "Vec::is_empty")]
    pub limits: Vec<(String, u64)>,
    /// (event index, Some(k) = after k bytes of that write)
    #[serde(default, skip_serializing_if = "Option::is_none")]
    pub crash: Option<(u64, Option<u64>)>,
    /// (mode, seed, unit µs)
    #[serde(default, skip_serializing_if = "Option::is_none")]
    pub delay: Option<(String, u64, u64)>,
    /// write failures addressed by the ordinal of the write call (`at` = 1-based ordinal)
    #[serde(default, skip_serializing_if = "Vec::is_empty")]
    pub failw: Vec<PointFail>,
    /// kill at the k-th write call: before it (None) or after n bytes of it
    #[serde(default, skip_serializing_if = "Option::is_none")]
    pub crashw: Option<(u64, Option<u64>)>,
    /// kill before (false) / right after (true) the j-th rename
    #[serde(default, skip_serializing_if = "Option::is_none")]
    pub crashr: Option<(u64, bool)>,
    /// failure of the j-th rename: (ordinal, errno)
    #[serde(default, skip_serializing_if = "Vec::is_empty")]
    pub failr: Vec<(u64, i32)>,
    /// the source of the j-th rename is deleted just before the rename (by "someone else")
    #[serde(default, skip_serializing_if = "Option::is_none")]
    pub vanishr: Option<u64>,
    /// simulated clock for the progress reporting: every reading advances time by this many ms
    #[serde(default, skip_serializing_if = "Option::is_none")]
    pub clock_step_ms: Option<u64>,
    /// a catchable signal raised by the process on itself before event `seq`: (seq, signal number)
    #[serde(default, skip_serializing_if = "Option::is_none")]
    pub signal: Option<(u64, i32)>,
}

impl Plan {
    pub fn to_text(&self) -> String {
        let mut s = String::new();
        let list = |v: &Vec<usize>| v.iter().map(|x| x.to_string()).collect::<Vec<_>>().join(",");
        if let Some(c) = self.writer_cap {
            s += &format!("knob writer_cap {}\n", c);
        }
        if !self.chunk_blk.is_empty() {
            s += &format!("chunk blk {}\n", list(&self.chunk_blk));
        }
        if !self.chunk_xor.is_empty() {
            s += &format!("chunk xor {}\n", list(&self.chunk_xor));
        }
        if !self.wshort.is_empty() {
            s += &format!("wshort {}\n", list(&self.wshort));
        }
        if self.weintr >= 2 {
            s += &format!("weintr {}\n", self.weintr);
        }
        if let Some(n) = self.fdmax {
            s += &format!("fdmax {}\n", n);
        }
        for f in &self.fails {
            match f.after {
                Some(k) => s += &format!("fail {} {} after {}\n", f.at, f.errno, k),
                None => s += &format!("fail {} {}\n", f.at, f.errno),
            }
        }
        for (n, l) in &self.limits {
            s += &format!("limit {} {}\n", n, l);
        }
        if let Some((at, k)) = self.crash {
            match k {
                Some(k) => s += &format!("crash {} after {}\n", at, k),
                None => s += &format!("crash {}\n", at),
            }
        }
        if let Some((m, seed, unit)) = &self.delay {
            s += &format!("delay {} {} {}\n", m, seed, unit);
        }
        for f in &self.failw {
            match (f.after, f.once) {
                (_, true) => s += &format!("failw {} {} once\n", f.at, f.errno),
                (Some(k), _) => s += &format!("failw {} {} after {}\n", f.at, f.errno, k),
                (None, _) => s += &format!("failw {} {}\n", f.at, f.errno),
            }
        }
        if let Some(j) = self.vanishr {
            s += &format!("vanishr {}\n", j);
        }
        if let Some(ms) = self.clock_step_ms {
            s += &format!("clock {}\n", ms);
        }
        if let Some((at, signo)) = self.signal {
            s += &format!("signal {} {}\n", at, signo);
        }
        if let Some((k, a)) = self.crashw {
            match a {
                Some(n) => s += &format!("crashw {} after {}\n", k, n),
                None => s += &format!("crashw {}\n", k),
            }
        }
        for (j, e) in &self.failr {
            s += &format!("failr {} {}\n", j, e);
        }
        if let Some((j, after)) = self.crashr {
            s += &format!("crashr {}{}\n", j, if after { " after" } else { "" });
        }
        s
    }
    /// does this plan contain a fault that must make the run fail / die?
    pub fn has_failing(&self) -> bool {
        !self.fails.is_empty() || !self.limits.is_empty() || self.crash.is_some() || self.fdmax.is_some() || !self.failw.is_empty() || self.crashw.is_some() || self.crashr.is_some() || !self.failr.is_empty() || self.vanishr.is_some() || self.signal.is_some()
    }
}

#[derive(Clone, Serialize, Deserialize, PartialEq, Eq, Debug, Hash)]
pub struct RunSpec {
    /// csvdump | unspentcsvdump | balances | simplestats | opreturn
    pub callback: String,
    #[serde(default, skip_serializing_if = "Option::is_none")]
    pub start: Option<u64>,
    #[serde(default, skip_serializing_if = "Option::is_none")]
    pub end: Option<u64>,
    #[serde(default)]
    pub verify: bool,
    pub threads: usize,
    #[serde(default)]
    pub plan: Plan,
    /// which entry of `layouts` the run uses
    #[serde(default)]
    pub layout: usize,
    /// wipe the dump folder and re-seed it from `dump_pre` before this run
    #[serde(default = "yes")]
    pub fresh_dump: bool,
    /// rebuild the data directory before this run (otherwise runs on the same
    /// layout share one directory, as a history)
    #[serde(default = "yes")]
    pub fresh_data: bool,
    /// stored-state faults applied to the data directory for this run only
    #[serde(default, skip_serializing_if = "Vec::is_empty")]
    pub disk_faults: Vec<DiskFault>,
    /// number of -v flags (0 = Info, 1 = Debug, 2 = Trace)
    #[serde(default, skip_serializing_if = "is_zero_u8")]
    pub verbosity: u8,
    /// run the binary built with the plain release settings (no overflow checks, no debug assertions)
    /// instead of the checked build
    #[serde(default, skip_serializing_if = "is_false")]
    pub plain_build: bool,
    /// stdout/stderr of the program are a pseudo-terminal (via script(1)) instead of a file
    #[serde(default, skip_serializing_if = "is_false")]
    pub tty: bool,
    /// how the two directory arguments are spelled: 0 absolute, 1 relative to the working directory,
    /// 2 absolute with a trailing slash, 3 relative with a leading "./" and a trailing slash
    #[serde(default, skip_serializing_if = "is_zero_u8")]
    pub path_style: u8,
    /// the dump folder is a sub-directory of the data directory
    #[serde(default, skip_serializing_if = "is_false")]
    pub dump_in_data: bool,
    /// address-space limit of the process in MiB (RLIMIT_AS, what `ulimit -v` sets): an allocation sized by
    /// untrusted input fails here although it would be a harmless lazy mapping on a big machine
    #[serde(default, skip_serializing_if = "Option::is_none")]
    pub vlimit_mb: Option<u64>,
    /// leave out `-c <coin>` (only for bitcoin, the documented default)
    #[serde(default, skip_serializing_if = "is_false")]
    pub omit_coin: bool,
    /// an extra path component above the data directory (".bitcoin", "testnet3", ".litecoin", …): where the
    /// data lives says nothing about the coin
    #[serde(default, skip_serializing_if = "Option::is_none")]
    pub dir_alias: Option<String>,
    /// how heights are spelled on the command line: 0 plain decimal, 1 zero-padded to 7 digits
    /// (`seq -w`, `printf %07d`), 2 with a leading `+`
    #[serde(default, skip_serializing_if = "is_zero_u8")]
    pub height_style: u8,
}
fn yes() -> bool {
    true
}

impl RunSpec {
    pub fn new(callback: &str) -> RunSpec {
        RunSpec {
            callback: callback.to_string(),
            start: None,
            end: None,
            verify: false,
            threads: 2,
            plan: Plan::default(),
            layout: 0,
            fresh_dump: true,
            fresh_data: true,
            disk_faults: vec![],
            verbosity: 0,
            plain_build: false,
            tty: false,
            path_style: 0,
            dump_in_data: false,
            vlimit_mb: None,
            omit_coin: false,
            dir_alias: None,
            height_style: 0,
        }
    }
}

#[derive(Clone, Serialize, Deserialize, PartialEq, Eq, Debug, Hash, Default)]
pub struct PreFile {
    pub name: String,
    pub bytes: Bytes,
}

#[derive(Clone, Serialize, Deserialize, PartialEq, Debug)]
pub struct Scenario {
    pub property: String,
    /// generator family / oracle variant inside the property
    pub family: String,
    /// violation class (filled in on replay files)
    #[serde(default, skip_serializing_if = "Option::is_none")]
    pub class: Option<String>,
    #[serde(default, skip_serializing_if = "Option::is_none")]
    pub detail: Option<String>,
    pub seed: u64,
    pub index_no: u64,
    pub coin: String,
    /// height of chain[0]
    #[serde(default)]
    pub base_height: u64,
    pub chain: Vec<BlockDesc>,
    #[serde(default, skip_serializing_if = "Vec::is_empty")]
    pub extras: Vec<ExtraBlock>,
    pub layouts: Vec<Layout>,
    #[serde(default)]
    pub index: IndexOpts,
    #[serde(default, skip_serializing_if = "Vec::is_empty")]
    pub dump_pre: Vec<PreFile>,
    pub runs: Vec<RunSpec>,
    /// oracle parameters specific to the family
    #[serde(default)]
    pub params: serde_json::Value,
}

pub const COINS: [&str; 8] = [
    "bitcoin",
    "testnet3",
    "namecoin",
    "litecoin",
    "dogecoin",
    "myriadcoin",
    "unobtanium",
    "noteblockchain",
];

pub struct CoinParams {
    pub name: &'static str,
    pub magic: u32,
    pub version_id: u8,
    pub genesis_hash_display: &'static str,
    pub auxpow_version: Option<u32>,
    pub bech32_hrp: Option<&'static str>,
}

pub fn coin_params(name: &str) -> CoinParams {
    match name {
        "bitcoin" => CoinParams {
            name: "bitcoin",
            magic: 0xd9b4bef9,
            version_id: 0x00,
            genesis_hash_display: "000000000019d6689c085ae165831e934ff763ae46a2a6c172b3f1b60a8ce26f",
            auxpow_version: None,
            bech32_hrp: Some("bc"),
        },
        "testnet3" => CoinParams {
            name: "testnet3",
            magic: 0x0709110b,
            version_id: 0x6f,
            genesis_hash_display: "000000000933ea01ad0ee984209779baaec3ced90fa3f408719526f8d77f4943",
            auxpow_version: None,
            bech32_hrp: Some("tb"),
        },
        "namecoin" => CoinParams {
            name: "namecoin",
            magic: 0xfeb4bef9,
            version_id: 0x34,
            genesis_hash_display: "000000000062b72c5e2ceb45fbc8587e807c155b0da735e6483dfba2f0a9c770",
            auxpow_version: Some(0x10101),
            bech32_hrp: None,
        },
        "litecoin" => CoinParams {
            name: "litecoin",
            magic: 0xdbb6c0fb,
            version_id: 0x30,
            genesis_hash_display: "12a765e31ffd4059bada1e25190f6e98c99d9714d334efa41a195a7e7e04bfe2",
            auxpow_version: None,
            bech32_hrp: None,
        },
        "dogecoin" => CoinParams {
            name: "dogecoin",
            magic: 0xc0c0c0c0,
            version_id: 0x1e,
            genesis_hash_display: "1a91e3dace36e2be3bf030a65679fe821aa1d6ef92e7c9902eb318182c355691",
            auxpow_version: Some(0x620102),
            bech32_hrp: None,
        },
        "myriadcoin" => CoinParams {
            name: "myriadcoin",
            magic: 0xee7645af,
            version_id: 0x32,
            genesis_hash_display: "00000ffde4c020b5938441a0ea3d314bf619eff0b38f32f78f7583cffa1ea485",
            auxpow_version: None,
            bech32_hrp: None,
        },
        "unobtanium" => CoinParams {
            name: "unobtanium",
            magic: 0x03b5d503,
            version_id: 0x82,
            genesis_hash_display: "000004c2fc5fffb810dccc197d603690099a68305232e552d96ccbe8e2c52b75",
            auxpow_version: None,
            bech32_hrp: None,
        },
        "noteblockchain" => CoinParams {
            name: "noteblockchain",
            magic: 0xe3ede5f4,
            version_id: 0x35,
            genesis_hash_display: "270f3e7b185c412d57ba913d10658df54f15201a67d736cb4071a4ec4eb54836",
            auxpow_version: None,
            bech32_hrp: None,
        },
        _ => panic!("unknown coin {}", name),
    }
}
