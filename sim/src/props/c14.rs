//! C14 — no script or witness content can abort a run or disturb other rows.
use crate::check::*;
use crate::desc::*;
use crate::exec::*;
use crate::gen::*;
use crate::oracle::*;
use crate::render::Model;
use crate::scriptgen::*;
use crate::util::*;
use serde_json::json;

pub struct C14;

/// Short and boundary scripts placed deterministically (each x 8 coins x 5 callbacks): what a sampled
/// generator only meets with luck. Every one-opcode script is covered by the first 256 entries.
fn special(k: usize) -> Vec<u8> {
    const EXTRA: [&[u8]; 28] = [
        &[],
        &[0x6a, 0x00],
        &[0x6a, 0x01],
        &[0x6a, 0x4b],
        &[0x6a, 0x4c],
        &[0x6a, 0x4d],
        &[0x6a, 0x4e],
        &[0x6a, 0x4c, 0x00],
        &[0x6a, 0x4c, 0x01],
        &[0x6a, 0x4c, 0xff],
        &[0x6a, 0x4d, 0x00],
        &[0x6a, 0x4d, 0x00, 0x00],
        &[0x6a, 0x4d, 0xff, 0xff],
        &[0x6a, 0x4e, 0x00, 0x00, 0x00],
        &[0x6a, 0x4e, 0x00, 0x00, 0x00, 0x00],
        &[0x6a, 0x4e, 0xff, 0xff, 0xff, 0xff],
        &[0x6a, 0x6a],
        &[0x6a, 0x51],
        &[0x6a, 0x01, 0x80],
        &[0x00, 0x00],
        &[0x00, 0x14],
        &[0x51, 0x20],
        &[0x76, 0xa9],
        &[0x76, 0xa9, 0x14],
        &[0xa9, 0x14],
        &[0x21],
        &[0x41],
        &[0x51, 0xae],
    ];
    if k < 256 {
        vec![k as u8]
    } else {
        EXTRA[(k - 256) % EXTRA.len()].to_vec()
    }
}
const N_SPECIAL: u64 = 256 + 28;
const CBS: [&str; 5] = ["csvdump", "unspentcsvdump", "balances", "simplestats", "opreturn"];

impl Prop for C14 {
    fn id(&self) -> &'static str {
        "C14"
    }
    fn rule(&self) -> String {
        "an otherwise valid chain (2..6 blocks, canonical scripts, consistent merkle/prev so --verify can be on) in which 1..4 fields are replaced by hostile byte strings of length 0..100 KB; first, deterministically, every one-opcode script and 28 OP_RETURN / push / template stubs of 0..6 bytes, each in a scriptPubKey, a scriptSig and a witness item x 8 coins x 5 callbacks; then sampled: truncated pushes of every width, PUSHDATA4 with lengths 2^31/2^32-1, every leading opcode, OP_RETURN + invalid UTF-8, witness-program look-alikes with illegal lengths, thousands of 1-byte pushes, all-0xff/all-zero, nested fragments, random bytes; placed in scriptPubKey, scriptSig or witness items; x 8 coins x 5 callbacks x --verify on/off x address-space limit (3000 MiB in a quarter of the runs and for all specials) x verbosity (-v/-vv in a third of the runs: diagnostics format script content too); program built with overflow checks and debug assertions. Oracle: exit 0, no panic, termination within the cap, and every row/figure not derived from the hostile field equals the reference (type/address/opreturn line of a hostile output itself are not judged). Non-trivial = at least one hostile field and exit observed; distinct by scenario hash.".into()
    }
    fn items(&self, tier: Tier) -> u64 {
        // the special scripts are packed 8 per scenario: 36 groups x 8 coins x 5 callbacks
        (N_SPECIAL + 7) / 8 * 40 + if tier == Tier::Quick { 1600 } else { 30000 }
    }
    fn required_probes(&self, _tier: Tier) -> Vec<&'static str> {
        vec!["hostile_script_pubkey", "hostile_script_sig", "hostile_witness_item", "hostile_len_ge_64k", "verify_on", "verbose_run", "segment_above_height_gated_rules", "bounded_address_space", "wide_tx_with_runs_of_equal_scripts"]
    }
    fn explore(&self, item: u64, rng: &mut Rng, _tier: Tier, h: &mut Harness) -> Result<(), String> {
        let coin = COINS[(item % 8) as usize];
        let cb = CBS[(item / 8 % 5) as usize];
        let mut scn = new_scenario("C14", "hostile", coin);
        let sh = TxShape {
            max_in: 2,
            max_out: 3,
            boundary: false,
            big: false,
            segwit_ok: true,
            random_scripts: false,
            edge_values: false,
        };
        let group = item / 40;
        let is_special = group < (N_SPECIAL + 7) / 8;
        // specials: nine blocks above every height-gated rule, block j+1 carries special j as its coinbase scriptSig
        let nb = if is_special { 9 } else { rng.usize(2, 6) };
        let base = if is_special { 227_931u64 } else { *rng.pick(&[0u64, 0, 0, 21_111, 227_931, 500_000]) };
        scn.base_height = base;
        let aux_thr = coin_params(coin).auxpow_version;
        for i in 0..nb {
            let mut b = rich_block(coin, base + i as u64, rng.usize(1, 3), rng, &sh, false);
            b.auxpow = None;
            b.version = 1;
            if is_special || rng.coin() {
                let v = *rng.pick(&[2u32, 3, 4, 0x2000_0000, 0x3fff_e000]);
                if aux_thr.map(|t| v < t).unwrap_or(true) {
                    b.version = v;
                }
            }
            scn.chain.push(b);
        }
        // plant hostile fields
        let mut hostile_outputs = vec![];
        let specials: Vec<Vec<u8>> = if is_special { (0..8).map(|j| special((group * 8 + j) as usize)).collect() } else { vec![] };
        if !specials.is_empty() {
            scn.family = "special".into();
            h.stats.probe("special_short_script");
        }
        let n_fields = if specials.is_empty() { rng.usize(1, 4) } else { 24 };
        for fi in 0..n_fields {
            let bi = rng.usize(0, nb - 1);
            let ti = rng.usize(0, scn.chain[bi].txs.len() - 1);
            let tx = &mut scn.chain[bi].txs[ti];
            let bytes = if specials.is_empty() { hostile(rng) } else { specials[fi % 8].clone() };
            // every special goes into each of the three kinds of field
            let kind = if specials.is_empty() { rng.below(3) } else { (fi / 8) as u64 };
            match kind {
                0 => {
                    // specials are appended as new outputs (so none overwrites another), sampled ones replace
                    let oi = if specials.is_empty() {
                        rng.usize(0, tx.outputs.len() - 1)
                    } else {
                        tx.outputs.push(OutDesc { value: 1, script: Bytes(vec![]) });
                        tx.outputs.len() - 1
                    };
                    tx.outputs[oi].script = Bytes(bytes);
                    hostile_outputs.push(json!([bi, ti, oi]));
                }
                1 if !specials.is_empty() => {
                    // special j = coinbase scriptSig of block j+1 (processed with and without --verify)
                    let j = fi % 8;
                    scn.chain[j + 1].txs[0].inputs[0].script_sig = Bytes(bytes);
                }
                1 => {
                    let ii = rng.usize(0, tx.inputs.len() - 1);
                    if ti == 0 {
                        // keep the coinbase shape (prev = 0/ffffffff), replace only the script
                    }
                    tx.inputs[ii].script_sig = Bytes(bytes);
                }
                _ => {
                    tx.segwit = true;
                    let ii = rng.usize(0, tx.inputs.len() - 1);
                    // sometimes a stack of hundreds of items in front of it (the item count is a CompactSize)
                    if specials.is_empty() && rng.chance(1, 6) {
                        for _ in 0..*rng.pick(&[252usize, 253, 254, 300, 1000]) {
                            tx.inputs[ii].witness.push(Bytes(vec![7u8; 1]));
                        }
                    }
                    tx.inputs[ii].witness.push(Bytes(bytes));
                }
            }
        }
        // a transaction with a thousand and more outputs in which neighbouring outputs carry byte-identical
        // scripts (hostile and ordinary ones) but different values: each row keeps its own value
        if !is_special && rng.chance(1, 12) {
            let bi = rng.usize(0, nb - 1);
            let ti = rng.usize(0, scn.chain[bi].txs.len() - 1);
            let mut h1 = hostile(rng);
            h1.truncate(40);
            let palette: Vec<Vec<u8>> = vec![h1, crate::ser::p2pkh(&rng.bytes(20)), crate::ser::p2sh(&rng.bytes(20))];
            let n = *rng.pick(&[1024usize, 1025, 1100, 2048]);
            let tx = &mut scn.chain[bi].txs[ti];
            let first = tx.outputs.len();
            let mut cur = 0usize;
            for k in 0..n {
                if rng.chance(1, 3) {
                    cur = rng.usize(0, 2);
                }
                tx.outputs.push(OutDesc { value: 1_000 + k as u64, script: Bytes(palette[cur].clone()) });
                if cur == 0 {
                    hostile_outputs.push(json!([bi, ti, first + k]));
                }
            }
            h.stats.probe("wide_tx_with_runs_of_equal_scripts");
        }
        scn.params = json!({ "hostile_outputs": hostile_outputs });
        scn.layouts = vec![random_layout(nb, 2, false, rng)];
        scn.index = index_opts(rng);
        let mut r = RunSpec::new(cb);
        r.threads = pick_threads(rng);
        r.verify = if is_special { item / 8 % 2 == 0 || rng.coin() } else { rng.coin() };
        if r.verify {
            r.start = Some(base + 1);
        } else if base > 0 {
            r.start = Some(base);
        }
        if base > 0 {
            h.stats.probe("segment_above_height_gated_rules");
        }
        if rng.chance(1, 3) {
            r.plan.chunk_blk = random_chunks(rng);
        }
        // a bounded address space (ulimit -v): a buffer sized by a length field of the script must not be
        // allocated before the bytes are known to exist
        if is_special || rng.chance(1, 4) {
            r.vlimit_mb = Some(3000);
            r.threads = *rng.pick(&[1usize, 2]);
        }
        // diagnostics are part of the run: debug/trace messages format script content too
        if rng.chance(1, 3) {
            r.verbosity = rng.range(1, 2) as u8;
        }
        scn.runs = vec![r];
        h.check(&mut scn)?;
        Ok(())
    }
    fn nontrivial(&self, _scn: &Scenario, outs: &[RunOutcome]) -> bool {
        !outs.is_empty()
    }
    fn judge(&self, scn: &Scenario, m: &Model, outs: &[RunOutcome], st: &mut Stats) -> Vec<Violation> {
        let (r, o) = (&scn.runs[0], &outs[0]);
        if scn.params.get("hostile_outputs").and_then(|v| v.as_array()).map(|a| !a.is_empty()).unwrap_or(false) {
            st.probe("hostile_script_pubkey");
        }
        for b in &scn.chain {
            for t in &b.txs {
                for i in &t.inputs {
                    // heuristics for probes: planted fields are the long / odd ones
                    if i.script_sig.0.len() > 120 || i.script_sig.0.is_empty() {
                        st.probe("hostile_script_sig");
                    }
                    if i.witness.iter().any(|w| w.0.len() > 100) {
                        st.probe("hostile_witness_item");
                    }
                    if i.script_sig.0.len() >= 65536 || i.witness.iter().any(|w| w.0.len() >= 65536) {
                        st.probe("hostile_len_ge_64k");
                    }
                }
                for out in &t.outputs {
                    if out.script.0.len() >= 65536 {
                        st.probe("hostile_len_ge_64k");
                    }
                }
            }
        }
        if r.verify {
            st.probe("verify_on");
        }
        if r.verbosity > 0 {
            st.probe("verbose_run");
        }
        if r.vlimit_mb.is_some() {
            st.probe("bounded_address_space");
        }
        let err = o.stderr_str();
        if err.contains("panicked") {
            return vec![viol(format!("C14/{}/panic", r.callback), format!("exit {:?}: {}", o.exit, super::c01::tail(&err)))];
        }
        if !o.exit.ok() {
            return vec![viol(format!("C14/{}/run-failed", r.callback), format!("exit {:?}: {}", o.exit, super::c01::tail(&err)))];
        }
        let mut v = Vec::new();
        for x in compare_with_model("C14", m, r, o, &CmpOpts { addr: true, decimals: false }, st) {
            v.push(viol(format!("C14/{}/other-rows-disturbed", r.callback), x.detail));
        }
        v
    }
}
