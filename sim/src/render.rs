//! Reference renderers: what each callback must output for a chain and range.
use crate::desc::*;
use crate::scriptref::{self, AddrV, OpRet, Ty, Verdict};
use crate::ser::*;
use crate::util::*;
use std::collections::{BTreeMap, HashMap};

/// the length prefix stored in front of active block `bi`: the payload length, unless the scenario asks for
/// a prefix that differs from it (`params.size_prefix_delta`, applied to every other block) — the program
/// reports the stored prefix and never uses it to delimit the block
pub fn stored_size(scn: &Scenario, bi: usize, len: usize) -> u64 {
    let d = scn.params.get("size_prefix_delta").and_then(|v| v.as_i64()).unwrap_or(0);
    if d != 0 && bi % 2 == 1 {
        (len as i64 + d).max(0) as u64
    } else {
        len as u64
    }
}

pub struct Model<'a> {
    pub scn: &'a Scenario,
    pub built: Built,
    /// verdict per (block idx, tx idx, out idx), computed lazily per block
    verdicts: Vec<Vec<Vec<Verdict>>>,
}

pub struct CsvExpect {
    pub blocks: Vec<u8>,
    pub transactions: Vec<u8>,
    pub tx_in: Vec<u8>,
    pub tx_out: Vec<u8>,
    /// tx_out rows whose address column is unconstrained: (row index)
    pub tx_out_unknown_addr: Vec<usize>,
    pub n_tx: u64,
    pub n_in: u64,
    pub n_out: u64,
}

#[derive(Clone, Debug, PartialEq, Eq)]
pub struct Utxo {
    pub height: u64,
    pub value: u64,
    pub address: String,
}

pub struct UtxoExpect {
    /// (txid display, index) -> entry
    pub map: BTreeMap<(String, u32), Utxo>,
    /// true if some output in range had an unconstrained address
    pub tainted: bool,
    /// outpoints (txid display, index) whose address is unconstrained: rows for them are neither required nor forbidden
    pub unknown: std::collections::BTreeSet<(String, u32)>,
}

#[derive(Clone, Debug, Default)]
pub struct StatsExpect {
    pub blocks: u64,
    pub txs: u64,
    pub inputs: u64,
    pub outputs: u64,
    pub fees: u128,
    pub volume: u128,
    pub biggest_value: (u128, u64, String),
    pub biggest_size: (u64, u64, String),
    pub sum_block_size: u128,
    pub n_gaps: u64,
    pub sum_gaps: u128,
    /// per type label: (count, first height, first txid)
    pub types: BTreeMap<String, (u64, u64, String)>,
    /// number of outputs whose type is unconstrained
    pub unknown_types: u64,
    /// a special case the statement does not cover was met (ts==0, coinbase w/o outputs, overflow)
    pub out_of_scope: Option<String>,
}

impl<'a> Model<'a> {
    pub fn new(scn: &'a Scenario) -> Model<'a> {
        let built = build_all(scn);
        let mut verdicts = Vec::with_capacity(scn.chain.len());
        for b in &scn.chain {
            let mut vb = Vec::with_capacity(b.txs.len());
            for t in &b.txs {
                vb.push(t.outputs.iter().map(|o| scriptref::eval(&scn.coin, &o.script.0)).collect());
            }
            verdicts.push(vb);
        }
        // outputs declared hostile (C14): nothing derived from the field itself is judged
        if let Some(list) = scn.params.get("hostile_outputs").and_then(|v| v.as_array()) {
            for e in list {
                if let Some(a) = e.as_array() {
                    let g = |i: usize| a.get(i).and_then(|x| x.as_u64()).unwrap_or(u64::MAX) as usize;
                    let (bi, ti, oi) = (g(0), g(1), g(2));
                    if let Some(vd) = verdicts.get_mut(bi).and_then(|b: &mut Vec<Vec<Verdict>>| b.get_mut(ti)).and_then(|t| t.get_mut(oi)) {
                        *vd = Verdict {
                            ty: Ty::Unknown,
                            addr: AddrV::Unknown,
                            opret: OpRet::Unknown,
                        };
                    }
                }
            }
        }
        Model { scn, built, verdicts }
    }

    pub fn tip(&self) -> u64 {
        self.scn.base_height + self.scn.chain.len() as u64 - 1
    }

    pub fn verdict(&self, bi: usize, ti: usize, oi: usize) -> &Verdict {
        &self.verdicts[bi][ti][oi]
    }

    /// indices into chain for heights s..=e (clamped to the chain)
    pub fn idx_range(&self, s: u64, e: u64) -> std::ops::Range<usize> {
        let base = self.scn.base_height;
        let n = self.scn.chain.len();
        let lo = s.saturating_sub(base).min(n as u64) as usize;
        let hi = if e < base { 0 } else { ((e - base + 1).min(n as u64)) as usize };
        lo..hi.max(lo)
    }

    /// stored size prefix = payload length
    pub fn csv(&self, s: u64, e: u64) -> CsvExpect {
        let mut x = CsvExpect {
            blocks: vec![],
            transactions: vec![],
            tx_in: vec![],
            tx_out: vec![],
            tx_out_unknown_addr: vec![],
            n_tx: 0,
            n_in: 0,
            n_out: 0,
        };
        let mut out_row = 0usize;
        for bi in self.idx_range(s, e) {
            let b = &self.scn.chain[bi];
            let bb = &self.built.active[bi];
            let h = self.scn.base_height + bi as u64;
            let bh = hex_rev(&bb.hash);
            x.blocks.extend_from_slice(
                format!(
                    "{};{};{};{};{};{};{};{};{}\n",
                    bh,
                    h,
                    b.version,
                    stored_size(self.scn, bi, bb.bytes.len()),
                    hex_rev(&bb.prev),
                    hex_rev(&bb.merkle),
                    b.time,
                    b.bits,
                    b.nonce
                )
                .as_bytes(),
            );
            for (ti, t) in b.txs.iter().enumerate() {
                let txid = hex_rev(&bb.txs[ti].txid);
                x.n_tx += 1;
                x.transactions
                    .extend_from_slice(format!("{};{};{};{}\n", txid, bh, t.version, t.locktime).as_bytes());
                for i in &t.inputs {
                    x.n_in += 1;
                    let mut pt = i.prev_txid.0.clone();
                    pt.resize(32, 0);
                    x.tx_in.extend_from_slice(
                        format!("{};{};{};{};{}\n", txid, hex_rev(&pt), i.prev_index, hex(&i.script_sig.0), i.sequence).as_bytes(),
                    );
                }
                for (oi, o) in t.outputs.iter().enumerate() {
                    x.n_out += 1;
                    let vd = self.verdict(bi, ti, oi);
                    let addr = match &vd.addr {
                        AddrV::Some(a) => a.clone(),
                        AddrV::None => String::new(),
                        AddrV::Unknown => {
                            x.tx_out_unknown_addr.push(out_row);
                            String::from("?")
                        }
                    };
                    x.tx_out
                        .extend_from_slice(format!("{};{};{};{};{}\n", txid, oi, o.value, hex(&o.script.0), addr).as_bytes());
                    out_row += 1;
                }
            }
        }
        x
    }

    /// UTXO machine over heights s..=e
    pub fn utxo(&self, s: u64, e: u64) -> UtxoExpect {
        let mut map: HashMap<(Vec<u8>, u32), Utxo> = HashMap::new();
        let mut tainted = false;
        let mut unknown = std::collections::BTreeSet::new();
        for bi in self.idx_range(s, e) {
            let b = &self.scn.chain[bi];
            let bb = &self.built.active[bi];
            let h = self.scn.base_height + bi as u64;
            for (ti, t) in b.txs.iter().enumerate() {
                for i in &t.inputs {
                    let mut pt = i.prev_txid.0.clone();
                    pt.resize(32, 0);
                    map.remove(&(pt, i.prev_index));
                }
                for (oi, o) in t.outputs.iter().enumerate() {
                    match &self.verdict(bi, ti, oi).addr {
                        AddrV::Some(a) => {
                            map.insert(
                                (bb.txs[ti].txid.to_vec(), oi as u32),
                                Utxo {
                                    height: h,
                                    value: o.value,
                                    address: a.clone(),
                                },
                            );
                        }
                        AddrV::None => {
                            // an address-less output with the same txid+index does not replace anything
                        }
                        AddrV::Unknown => {
                            tainted = true;
                            unknown.insert((hex_rev(&bb.txs[ti].txid), oi as u32));
                        }
                    }
                }
            }
        }
        let mut out = BTreeMap::new();
        for ((txid, idx), u) in map {
            out.insert((hex_rev(&txid), idx), u);
        }
        UtxoExpect { map: out, tainted, unknown }
    }

    pub fn unspent_rows(&self, s: u64, e: u64) -> (Vec<String>, bool) {
        let u = self.utxo(s, e);
        let rows = u
            .map
            .iter()
            .filter(|(k, _)| !u.unknown.contains(*k))
            .map(|((txid, idx), v)| format!("{};{};{};{};{}", txid, idx, v.height, v.value, v.address))
            .collect();
        (rows, u.tainted)
    }

    pub fn balance_rows(&self, s: u64, e: u64) -> (Vec<String>, bool) {
        let u = self.utxo(s, e);
        let mut bal: BTreeMap<String, u128> = BTreeMap::new();
        for v in u.map.values() {
            *bal.entry(v.address.clone()).or_insert(0) += v.value as u128;
        }
        (bal.iter().map(|(a, b)| format!("{};{}", a, b)).collect(), u.tainted)
    }

    /// expected opreturn lines; None entries = unconstrained outputs were present
    /// Returns (required lines in order, set of optional lines that may appear anywhere)
    pub fn opreturn(&self, s: u64, e: u64) -> (Vec<String>, Vec<(usize, String)>) {
        // returns: lines (in order) and "optional slots": position in `lines` before which an
        // unconstrained output sits, with its line prefix (height/txid part)
        let mut lines = Vec::new();
        let mut optional = Vec::new();
        for bi in self.idx_range(s, e) {
            let b = &self.scn.chain[bi];
            let bb = &self.built.active[bi];
            let h = self.scn.base_height + bi as u64;
            for (ti, t) in b.txs.iter().enumerate() {
                let txid = hex_rev(&bb.txs[ti].txid);
                for (oi, _o) in t.outputs.iter().enumerate() {
                    match &self.verdict(bi, ti, oi).opret {
                        OpRet::Line(p) => {
                            if !p.is_empty() {
                                lines.push(format!("height: {: <9} txid: {}    data: {}", h, txid, p))
                            }
                        }
                        OpRet::Nothing => {}
                        OpRet::Unknown => optional.push((lines.len(), format!("height: {: <9} txid: {}    data: ", h, txid))),
                    }
                }
            }
        }
        (lines, optional)
    }

    pub fn stats(&self, s: u64, e: u64) -> StatsExpect {
        let mut x = StatsExpect::default();
        x.biggest_value = (0, 0, hex(&[0u8; 32]));
        x.biggest_size = (0, 0, hex(&[0u8; 32]));
        let mut last_ts: Option<u32> = None;
        for bi in self.idx_range(s, e) {
            let b = &self.scn.chain[bi];
            let bb = &self.built.active[bi];
            let h = self.scn.base_height + bi as u64;
            x.blocks += 1;
            x.txs += b.txs.len() as u64;
            x.sum_block_size += stored_size(self.scn, bi, bb.bytes.len()) as u128;
            for (ti, t) in b.txs.iter().enumerate() {
                let txid = hex_rev(&bb.txs[ti].txid);
                let is_cb = t.inputs.len() == 1 && t.inputs[0].prev_txid.0.iter().all(|z| *z == 0) && t.inputs[0].prev_index == 0xffff_ffff;
                if is_cb {
                    if t.outputs.is_empty() {
                        x.out_of_scope = Some("coinbase without outputs".into());
                    } else {
                        if h / 210000 >= 64 {
                            x.out_of_scope = Some("height beyond 64 halvings".into());
                        } else {
                            let reward = (50u64 * 100_000_000) >> (h / 210000);
                            x.fees += t.outputs[0].value.saturating_sub(reward) as u128;
                        }
                    }
                }
                x.inputs += t.inputs.len() as u64;
                x.outputs += t.outputs.len() as u64;
                let mut tv: u128 = 0;
                for (oi, o) in t.outputs.iter().enumerate() {
                    tv += o.value as u128;
                    let ty = self.verdict(bi, ti, oi).ty;
                    if ty == Ty::Unknown {
                        x.unknown_types += 1;
                    } else {
                        let ent = x.types.entry(ty.label().to_string()).or_insert((0, h, txid.clone()));
                        ent.0 += 1;
                    }
                }
                if tv > u64::MAX as u128 {
                    x.out_of_scope = Some("tx value beyond 2^64".into());
                }
                if tv > x.biggest_value.0 {
                    x.biggest_value = (tv, h, txid.clone());
                }
                x.volume += tv;
                let sz = bb.txs[ti].stripped_len as u64;
                if sz > x.biggest_size.0 {
                    x.biggest_size = (sz, h, txid.clone());
                }
            }
            if b.time == 0 {
                x.out_of_scope = Some("block timestamp 0".into());
            }
            if let Some(l) = last_ts {
                x.n_gaps += 1;
                x.sum_gaps += b.time.saturating_sub(l) as u128;
            }
            last_ts = Some(b.time);
        }
        if x.volume > u64::MAX as u128 || x.fees > u64::MAX as u128 {
            x.out_of_scope = Some("total beyond 2^64".into());
        }
        x
    }
}
