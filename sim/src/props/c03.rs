//! C03 — a block is read from the (file, offset) its index record names.
//! C11 — XOR-obfuscated files give identical results (shares the layout generator).
use crate::check::*;
use crate::desc::*;
use crate::exec::*;
use crate::gen::*;
use crate::oracle::*;
use crate::render::Model;
use crate::util::*;

pub struct C03;
pub struct C11;

const FILE_NUMBERS: [u64; 24] = [0, 1, 2, 3, 4, 5, 127, 128, 16511, 16512, 1 << 32, u64::MAX, 255, 256, 999, 1000, 4095, 4096, 9999, 10_000, 10_001, 65_535, 65_536, 100_000];

fn foreign_block(coin: &str, rng: &mut Rng) -> ExtraBlock {
    let sh = TxShape {
        max_in: 2,
        max_out: 2,
        boundary: false,
        big: false,
        segwit_ok: false,
        random_scripts: false,
        edge_values: false,
    };
    let mut b = rich_block(coin, rng.below(1000), rng.usize(1, 2), rng, &sh, false);
    b.auxpow = None;
    b.version = 1;
    ExtraBlock {
        block: b,
        kind: "foreign".into(),
        index: None,
        parent_height: None,
        parent_extra: None,
    }
}

/// a physical layout of `n` active blocks and `nx` foreign blocks
pub fn wild_layout(n: usize, nx: usize, rng: &mut Rng, sparse: bool, max_files: usize) -> Layout {
    let nf = rng.usize(1, max_files.max(1)).min(n.max(1));
    // distinct file numbers
    let mut numbers: Vec<u64> = Vec::new();
    while numbers.len() < nf {
        let c = if rng.chance(1, 2) { *rng.pick(&FILE_NUMBERS) } else { rng.below(3000) };
        if !numbers.contains(&c) {
            numbers.push(c);
        }
    }
    let mut files: Vec<BlkFileDesc> = numbers
        .iter()
        .map(|k| BlkFileDesc {
            number: *k,
            width: *rng.pick(&[5usize, 5, 5, 1, 2, 8, 20, 21, 25, 40]),
            segs: vec![],
            symlink: false,
        })
        .collect();
    let mut order: Vec<usize> = (0..n).collect();
    rng.shuffle(&mut order);
    let mut xs: Vec<usize> = (0..nx).collect();
    for i in order {
        let f = rng.usize(0, nf - 1);
        match rng.below(6) {
            0 => files[f].segs.push(Seg::Zero { n: rng.range(1, 70000) }),
            1 => {
                let g = rng.bytes_range(1, 300);
                files[f].segs.push(Seg::Garbage { bytes: Bytes(g) })
            }
            2 => {
                if let Some(x) = xs.pop() {
                    files[f].segs.push(Seg::Extra { i: x })
                }
            }
            _ => {}
        }
        files[f].segs.push(Seg::Active { i });
    }
    for x in xs {
        let f = rng.usize(0, nf - 1);
        files[f].segs.push(Seg::Extra { i: x });
    }
    files.retain(|f| f.segs.iter().any(|s| matches!(s, Seg::Active { .. })));
    for f in files.iter_mut() {
        if rng.chance(1, 8) {
            f.symlink = true;
        }
    }
    if sparse {
        // push one file's content beyond 4 GiB with a hole at the front (and one in the middle)
        let f = rng.usize(0, files.len() - 1);
        if rng.coin() {
            files[f].segs.insert(0, Seg::Hole { n: (1u64 << 32) + rng.below(1 << 20) });
            let mid = files[f].segs.len() / 2 + 1;
            let at = mid.min(files[f].segs.len());
            files[f].segs.insert(at, Seg::Hole { n: rng.range(1 << 20, 1 << 31) });
        } else {
            // blocks of this file in height order, and between two of them a hole of k*2^32 plus a little:
            // the hop from the end of one block to the start of the next is ~2^32 (its low 32 bits are small)
            let mut act: Vec<usize> = files[f].segs.iter().filter_map(|s| if let Seg::Active { i } = s { Some(*i) } else { None }).collect();
            act.sort();
            files[f].segs.retain(|s| !matches!(s, Seg::Active { .. }));
            let cut = rng.usize(1, act.len().max(1));
            for (k, i) in act.iter().enumerate() {
                if k == cut.min(act.len() - 1) && act.len() > 1 {
                    let kk = rng.range(1, 2);
                    // just above and just below a multiple of 2^32 (the low 32 bits of the hop look like a short
                    // forward or backward move)
                    let d = *rng.pick(&[0u64, 1, 4, 5, 8, 12, 100, 5000, 30000]);
                    files[f].segs.push(Seg::Hole { n: if rng.coin() { (kk << 32) + d } else { (kk << 32) - d } });
                }
                files[f].segs.push(Seg::Active { i: *i });
            }
            if act.len() == 1 {
                files[f].segs.insert(0, Seg::Hole { n: (1u64 << 32) + rng.below(100) });
            }
        }
    }
    // extra directory entries that must be ignored
    let mut extra_files = vec![];
    if rng.coin() {
        for name in ["rev00000.dat", "blkindex.dat", "blk.dat", "blkx1.dat", "blk00001.dat.bak", "xblk00002.dat"] {
            if rng.coin() {
                extra_files.push(ExtraFile {
                    name: name.into(),
                    bytes: Bytes(rng.bytes_range(0, 100)),
                    is_dir: false,
                    symlink_to: None,
                });
            }
        }
        // look-alikes of real blk file names (backup copies, editor leftovers): must be ignored
        for _ in 0..rng.usize(0, 3) {
            let f = rng.pick(&files);
            let real = crate::world::blk_name(f.number, f.width);
            let name = match rng.below(7) {
                0 => format!("{}.bak", real),
                1 => format!("{}~", real),
                2 => format!("old-{}", real),
                3 => format!("{}.1", real),
                4 => format!("x{}", real),
                5 => real.replace(".dat", ".data"),
                _ => format!("{}.tmp", real),
            };
            if !extra_files.iter().any(|e: &ExtraFile| e.name == name) {
                extra_files.push(ExtraFile {
                    name,
                    bytes: Bytes(rng.bytes_range(0, 3000)),
                    is_dir: false,
                    symlink_to: None,
                });
            }
        }
        // symbolic links with a blk file name that cannot be followed (dangling, self-referential) or lead to a
        // directory: named by no record, to be ignored like any other stray entry
        for target in ["no-such-target", "", ".", "index"] {
            if !rng.chance(1, 3) {
                continue;
            }
            let mut k = 8100 + rng.below(500);
            while files.iter().any(|f| f.number == k) {
                k += 1;
            }
            let name = format!("blk{:05}.dat", k);
            if !extra_files.iter().any(|e: &ExtraFile| e.name == name) {
                extra_files.push(ExtraFile {
                    name: name.clone(),
                    bytes: Bytes(vec![]),
                    is_dir: false,
                    symlink_to: Some(if target.is_empty() { name } else { target.to_string() }),
                });
            }
        }
        // what else a node leaves in and around its blocks directory: pid file of a running daemon (pid 1 is
        // always alive), lock, log and state files, and a stale copy of a whole blocks directory (rsync run
        // twice) — none of it is named by an index record
        if rng.coin() {
            for (name, body) in [
                ("bitcoind.pid", &b"1\n"[..]),
                ("litecoind.pid", &b"1\n"[..]),
                (".lock", &b""[..]),
                ("debug.log", &b"2024-01-01T00:00:00Z UpdateTip: new best=00 height=1\n"[..]),
                ("peers.dat", &b"\xf9\xbe\xb4\xd9"[..]),
                ("settings.json", &b"{}"[..]),
            ] {
                if rng.chance(1, 3) && !extra_files.iter().any(|e: &ExtraFile| e.name == name) {
                    extra_files.push(ExtraFile {
                        name: name.into(),
                        bytes: Bytes(body.to_vec()),
                        is_dir: false,
                        symlink_to: None,
                    });
                }
            }
            if rng.chance(1, 3) {
                for name in ["blocks/index", "blocks/blocks/index"] {
                    if rng.coin() {
                        extra_files.push(ExtraFile {
                            name: name.into(),
                            bytes: Bytes(vec![]),
                            is_dir: true,
                            symlink_to: None,
                        });
                    }
                }
            }
        }
        // a blk file no record names, and a directory with a blk name
        for is_dir in [false, true] {
            let mut k = 7000 + rng.below(1000);
            while files.iter().any(|f| f.number == k) {
                k += 1;
            }
            let name = format!("blk{:05}.dat", k + is_dir as u64);
            if rng.coin() && !extra_files.iter().any(|e: &ExtraFile| e.name == name) && !files.iter().any(|f| f.number == k + is_dir as u64) {
                extra_files.push(ExtraFile {
                    name,
                    bytes: Bytes(rng.bytes_range(0, 200)),
                    is_dir,
                    symlink_to: None,
                });
            }
        }
    }
    Layout {
        files,
        xor_key: None,
        magic_mode: if rng.chance(1, 3) { rng.range(1, 3) as u8 } else { 0 },
        xor_symlink: false,
        link_chain: rng.chance(1, 3),
        side_xor: if rng.chance(1, 4) { Some(Bytes(rng.bytes(8))) } else { None },
        extra_files,
    }
}

fn extra_index_keys(rng: &mut Rng) -> Vec<(Bytes, Bytes)> {
    let mut v = vec![];
    if rng.coin() {
        for k in 0..rng.usize(1, 4) {
            let mut key = vec![b'f'];
            key.extend(core_varint(k as u64));
            v.push((Bytes(key), Bytes(rng.bytes_range(4, 30))));
        }
        v.push((Bytes(vec![b'l']), Bytes(vec![3])));
        v.push((Bytes(b"Ftxindex".to_vec()), Bytes(vec![b'1'])));
        v.push((Bytes(vec![b'R']), Bytes(vec![b'0'])));
        let mut t = vec![b't'];
        t.extend(rng.bytes(32));
        v.push((Bytes(t), Bytes(rng.bytes_range(3, 12))));
        v.push((Bytes(vec![b'B']), Bytes(rng.bytes(32))));
        v.push((Bytes(vec![0x0e, 0x00, b'o', b'b', b'f']), Bytes(rng.bytes(8))));
    }
    v
}

fn world(prop: &str, family: &str, item: u64, rng: &mut Rng, tier: Tier) -> Scenario {
    let coin = COINS[(item % 8) as usize];
    let mut scn = new_scenario(prop, family, coin);
    let sh = TxShape {
        max_in: 3,
        max_out: 3,
        boundary: rng.chance(1, 4),
        big: rng.chance(1, 5),
        segwit_ok: true,
        random_scripts: false,
        edge_values: false,
    };
    let nb = if rng.chance(1, 8) { rng.usize(30, if tier == Tier::Quick { 60 } else { 400 }) } else { rng.usize(2, 12) };
    let base = if rng.chance(1, 5) { *rng.pick(&[120u64, 16500, 2_113_660, 3_000_000]) } else { 0 };
    scn.base_height = base;
    for i in 0..nb {
        let n_tx = rng.usize(1, 4);
        scn.chain.push(rich_block(coin, base + i as u64, n_tx, rng, &sh, false));
    }
    for _ in 0..rng.usize(0, 3) {
        scn.extras.push(foreign_block(coin, rng));
    }
    scn.index = index_opts(rng);
    scn.index.extra_keys = extra_index_keys(rng);
    // length prefixes that are not the length of the block behind them (the index offset locates a block, the
    // prefix is only reported): the same in every layout of the scenario
    if rng.chance(1, 8) {
        let d = *rng.pick(&[-1i64, -60, 1, 7, 300, 70_000]);
        scn.params = serde_json::json!({ "size_prefix_delta": d });
    }
    scn
}

impl Prop for C03 {
    fn id(&self) -> &'static str {
        "C03"
    }
    fn rule(&self) -> String {
        "one logical chain (2..60 blocks quick, ..400 thorough; heights up to 3M) stored under 4-6 (thorough 8-12) physical layouts per scenario: blocks permuted within/across 1..40 files (thorough ..300), file numbers incl. 127/128/16511/16512/2^32/2^64-1, name padding 1..20 digits, zero padding, garbage, unindexed foreign blocks, one sparse >4GiB layout in ~1/6 scenarios, extra index keys (f,l,F,R,t,B,obfuscation key), extra directory entries, the record's nTx field true/0/off-by-one/garbage, the four bytes in front of each size prefix = coin magic/zeros/foreign magic/garbage; each layout run under random read chunking (1B..32KiB). Oracle: csvdump output identical across layouts (bytes) and equal to the reference model. Non-trivial = >=2 layouts succeeded and some layout stores blocks out of height order; distinct by scenario hash.".into()
    }
    fn items(&self, tier: Tier) -> u64 {
        if tier == Tier::Quick {
            500
        } else {
            5000
        }
    }
    fn required_probes(&self, _tier: Tier) -> Vec<&'static str> {
        vec!["sparse_over_4gib", "backward_physical_order", "foreign_block_present", "file_number_wide", "block_over_32k", "symlinked_blk_file"]
    }
    fn explore(&self, item: u64, rng: &mut Rng, tier: Tier, h: &mut Harness) -> Result<(), String> {
        let mut scn = world("C03", "layouts", item, rng, tier);
        let nl = if tier == Tier::Quick { rng.usize(4, 6) } else { rng.usize(8, 12) };
        let n = scn.chain.len();
        let nx = scn.extras.len();
        let max_files = if tier == Tier::Quick { 40 } else { 300 };
        for li in 0..nl {
            let sparse = li == 1 && item % 6 == 0;
            let l = if li == 0 { single_file_layout(n) } else { wild_layout(n, nx, rng, sparse, max_files) };
            scn.layouts.push(l);
            let mut r = RunSpec::new("csvdump");
            r.layout = li;
            r.threads = 2;
            r.start = if scn.base_height > 0 { Some(scn.base_height) } else { None };
            r.plan.chunk_blk = if rng.chance(3, 4) { random_chunks(rng) } else { vec![] };
            fit_chunks(&mut r.plan, chain_bytes(&scn.chain), 150_000);
            scn.runs.push(r);
        }
        super::dress(&mut scn, rng, true);
        h.check(&mut scn)?;
        Ok(())
    }
    fn nontrivial(&self, scn: &Scenario, outs: &[RunOutcome]) -> bool {
        outs.iter().filter(|o| o.exit.ok()).count() >= 2 && scn.layouts.iter().any(|l| out_of_order(l))
    }
    fn judge(&self, scn: &Scenario, m: &Model, outs: &[RunOutcome], st: &mut Stats) -> Vec<Violation> {
        judge_layouts("C03", scn, m, outs, st)
    }
}

fn out_of_order(l: &Layout) -> bool {
    l.files.iter().any(|f| {
        let idx: Vec<usize> = f.segs.iter().filter_map(|s| if let Seg::Active { i } = s { Some(*i) } else { None }).collect();
        idx.windows(2).any(|w| w[0] > w[1])
    }) || l.files.len() > 1
}

fn judge_layouts(pfx: &str, scn: &Scenario, m: &Model, outs: &[RunOutcome], st: &mut Stats) -> Vec<Violation> {
    let mut v = Vec::new();
    for l in &scn.layouts {
        if l.files.iter().any(|f| f.segs.iter().any(|s| matches!(s, Seg::Hole { n } if *n >= 1 << 32))) {
            st.probe("sparse_over_4gib");
        }
        if out_of_order(l) {
            st.probe("backward_physical_order");
        }
        if l.files.iter().any(|f| f.segs.iter().any(|s| matches!(s, Seg::Extra { .. }))) {
            st.probe("foreign_block_present");
        }
        if l.files.iter().any(|f| f.number > 16511) {
            st.probe("file_number_wide");
        }
        if l.xor_key.is_some() {
            st.probe("xor_layout");
        }
        if l.files.iter().any(|f| f.symlink) {
            st.probe("symlinked_blk_file");
        }
    }
    if m.built.active.iter().any(|b| b.bytes.len() > 32768) {
        st.probe("block_over_32k");
    }
    let mut first: Option<(usize, Vec<String>)> = None;
    for (i, (r, o)) in scn.runs.iter().zip(outs.iter()).enumerate() {
        if !o.exit.ok() {
            v.push(viol(format!("{}/run-failed", pfx), format!("layout {} ({} files): exit {:?}: {}", r.layout, scn.layouts[r.layout].files.len(), o.exit, super::c01::tail(&o.stderr_str()))));
            continue;
        }
        let vs = compare_with_model(pfx, m, r, o, &CmpOpts { addr: false, decimals: false }, st);
        let bad = !vs.is_empty();
        v.extend(vs);
        if bad {
            continue;
        }
        let norm = normalized_output(r, o);
        match &first {
            None => first = Some((i, norm)),
            Some((j, f)) => {
                if scn.runs[*j].callback == r.callback && scn.runs[*j].start == r.start && scn.runs[*j].end == r.end && *f != norm {
                    v.push(viol(format!("{}/layouts-differ", pfx), format!("run {} (layout {}) and run {} (layout {}) produce different output", j, scn.runs[*j].layout, i, r.layout)));
                }
            }
        }
    }
    v
}

impl Prop for C11 {
    fn id(&self) -> &'static str {
        "C11"
    }
    fn rule(&self) -> String {
        "twin data directories: each C03-style layout (incl. blocks >32KiB, padding so offsets are not multiples of the key length, sparse >4GiB in ~1/6) is built in plaintext and XOR-ed with a key of length 1..64 (8 most often; random, all-zero, single byte, one-hot, zero prefix/suffix of any length incl. exactly the first 8 bytes), both run for a random callback of the five under read chunk sizes chosen relative to the key period (chunk = 0,+1,-1 mod period, chunk < period, random). Oracle: outputs of the obfuscated directory identical to the plaintext one and to the reference model. Non-trivial = both twins succeeded with a non-zero key; distinct by scenario hash.".into()
    }
    fn items(&self, tier: Tier) -> u64 {
        if tier == Tier::Quick {
            700
        } else {
            8000
        }
    }
    fn required_probes(&self, _tier: Tier) -> Vec<&'static str> {
        vec!["xor_layout", "sparse_over_4gib", "block_over_32k", "key_len_not_8", "chunk_below_period", "zero_key", "key_len_over_256", "key_zero_in_first_8_bytes_only", "xor_dat_is_a_symlink", "over_512_files_open_at_once", "key_ending_in_line_break", "key_partially_repeating"]
    }
    fn explore(&self, item: u64, rng: &mut Rng, tier: Tier, h: &mut Harness) -> Result<(), String> {
        if item % 50 == 7 {
            // hundreds of files that all stay open: file j holds block j and block j+nf, so none can be
            // closed before the second pass reaches it (descriptor-saving schemes must keep the key)
            let nf = *rng.pick(&[300usize, 520, 600, 700]);
            let coin = COINS[(item / 50 % 8) as usize];
            let mut scn = new_scenario("C11", "many-open", coin);
            scn.chain = marker_chain(0, 2 * nf, rng);
            let files: Vec<BlkFileDesc> = (0..nf)
                .map(|j| BlkFileDesc {
                    number: j as u64,
                    width: 5,
                    segs: vec![Seg::Active { i: j }, Seg::Active { i: j + nf }],
                    symlink: false,
                })
                .collect();
            let plain = Layout {
                files,
                xor_key: None,
                magic_mode: 0,
                xor_symlink: false,
                link_chain: false,
                side_xor: None,
                extra_files: vec![],
            };
            let mut obf = plain.clone();
            obf.xor_key = Some(Bytes(rng.bytes(8)));
            scn.layouts = vec![plain, obf];
            scn.index = index_opts(rng);
            for li in 0..2 {
                let mut r = RunSpec::new("csvdump");
                r.layout = li;
                r.threads = 2;
                scn.runs.push(r);
            }
            if nf > 512 {
                h.stats.probe("over_512_files_open_at_once");
            }
            h.check(&mut scn)?;
            return Ok(());
        }
        let mut scn = world("C11", "xor-twin", item, rng, tier);
        let n = scn.chain.len();
        let nx = scn.extras.len();
        let sparse = item % 6 == 0;
        let plain = wild_layout(n, nx, rng, sparse, 12);
        // the statement says "any length": mostly 1..64 (8 in Bitcoin Core), sometimes much longer
        let kl = match rng.below(8) {
            0 => 1,
            1 | 2 | 3 => 8,
            4 => *rng.pick(&[65usize, 100, 255, 256, 257, 300, 1000, 4096, 40000]),
            _ => rng.usize(1, 64),
        };
        let mut key = match rng.below(10) {
            0 => vec![0u8; kl],
            1 => vec![rng.next() as u8; kl],
            // structured keys: a single non-zero byte anywhere (zero prefix / zero suffix of any length),
            // or a zero run at the front or back of an otherwise random key
            2 => {
                let mut k = vec![0u8; kl];
                let at = if rng.coin() { kl - 1 } else { rng.usize(0, kl - 1) };
                k[at] = 1 << rng.below(8);
                k
            }
            3 => {
                let mut k = rng.bytes(kl);
                let z = rng.usize(0, kl);
                if rng.coin() {
                    k[..z].iter_mut().for_each(|b| *b = 0);
                } else {
                    k[kl - z..].iter_mut().for_each(|b| *b = 0);
                }
                k
            }
            _ => rng.bytes(kl),
        };
        // keys with inner structure: a unit repeated and cut off (abcabcab, ababa), and keys that end in a
        // line break (0a, 0d 0a) — eight bytes plus one or two, as a text tool might leave them
        if kl >= 3 && rng.chance(1, 10) {
            let u = rng.usize(2, (kl - 1).min(5));
            let unit = rng.bytes(u);
            if unit.iter().any(|b| *b != unit[0]) {
                key = (0..kl).map(|i| unit[i % u]).collect();
            }
        }
        if rng.chance(1, 10) {
            key = rng.bytes(8);
            if rng.coin() {
                key.push(0x0a);
            } else {
                key.extend_from_slice(&[0x0d, 0x0a]);
            }
        }
        let kl = key.len();
        if kl > 8 && rng.chance(1, 8) {
            // first eight bytes (Bitcoin Core's width) zero, the rest not
            key[..8].iter_mut().for_each(|b| *b = 0);
            if key[8..].iter().all(|b| *b == 0) {
                key[kl - 1] = 0x80;
            }
        }
        let mut obf = plain.clone();
        obf.xor_key = Some(Bytes(key));
        obf.xor_symlink = rng.chance(1, 6);
        if obf.xor_symlink {
            h.stats.probe("xor_dat_is_a_symlink");
        }
        scn.layouts = vec![plain, obf];
        let cb = *rng.pick(&["csvdump", "csvdump", "unspentcsvdump", "balances", "simplestats", "opreturn"]);
        let p = kl.max(1);
        let chunks: Vec<usize> = match rng.below(6) {
            0 => vec![p],
            1 => vec![p + 1],
            2 => vec![(p.max(2)) - 1],
            3 => vec![p * rng.usize(1, 50)],
            4 => vec![rng.usize(1, p)],
            _ => random_chunks(rng),
        };
        for li in 0..2 {
            let mut r = RunSpec::new(cb);
            r.layout = li;
            r.threads = 2;
            r.start = if scn.base_height > 0 { Some(scn.base_height) } else { None };
            r.plan.chunk_blk = if li == 1 || rng.coin() { chunks.clone() } else { vec![] };
            if rng.chance(1, 4) {
                r.plan.chunk_xor = vec![rng.usize(1, 9)];
            }
            fit_chunks(&mut r.plan, chain_bytes(&scn.chain), 150_000);
            scn.runs.push(r);
        }
        h.check(&mut scn)?;
        Ok(())
    }
    fn nontrivial(&self, scn: &Scenario, outs: &[RunOutcome]) -> bool {
        outs.iter().all(|o| o.exit.ok()) && scn.layouts[1].xor_key.as_ref().map(|k| k.0.iter().any(|b| *b != 0)).unwrap_or(false)
    }
    fn judge(&self, scn: &Scenario, m: &Model, outs: &[RunOutcome], st: &mut Stats) -> Vec<Violation> {
        if let Some(k) = scn.layouts.get(1).and_then(|l| l.xor_key.as_ref()) {
            if k.0.len() != 8 {
                st.probe("key_len_not_8");
            }
            if k.0.len() > 256 {
                st.probe("key_len_over_256");
            }
            if k.0.iter().all(|b| *b == 0) {
                st.probe("zero_key");
            }
            if (k.0.len() == 9 && k.0[8] == 0x0a) || (k.0.len() == 10 && k.0[8..] == [0x0d, 0x0a]) {
                st.probe("key_ending_in_line_break");
            }
            {
                let kk = &k.0;
                let partial = (2..kk.len()).any(|p| kk.len() % p != 0 && (0..kk.len()).all(|i| kk[i] == kk[i % p]) && kk.iter().any(|b| *b != kk[0]));
                if partial {
                    st.probe("key_partially_repeating");
                }
            }
            if k.0.len() > 8 && k.0[..8].iter().all(|b| *b == 0) && k.0.iter().any(|b| *b != 0) {
                st.probe("key_zero_in_first_8_bytes_only");
            }
            if let Some(r) = scn.runs.get(1) {
                if r.plan.chunk_blk.iter().any(|c| *c < k.0.len()) {
                    st.probe("chunk_below_period");
                }
            }
        }
        judge_layouts("C11", scn, m, outs, st)
    }
}
