//! C09 — --verify accepts exactly the chains whose merkle roots and prev links hold.
use crate::check::*;
use crate::desc::*;
use crate::exec::*;
use crate::gen::*;
use crate::obs::*;
use crate::oracle::*;
use crate::render::Model;
use crate::selftest::genesis_block;
use crate::util::*;

pub struct C09;
const SLICES: u64 = 16;
const TX_COUNTS: [usize; 21] = [1, 2, 3, 4, 5, 6, 7, 8, 9, 15, 16, 17, 31, 32, 33, 63, 64, 65, 100, 255, 256];

fn small_tx(rng: &mut Rng, coinbase_h: Option<u64>, segwit: bool) -> TxDesc {
    let input = match coinbase_h {
        Some(h) => coinbase_input(h, rng),
        None => InDesc {
            prev_txid: Bytes(rng.bytes(32)),
            prev_index: rng.below(3) as u32,
            script_sig: Bytes(rng.bytes_range(0, 6)),
            sequence: 0xffff_ffff,
            witness: vec![],
        },
    };
    let mut input = input;
    if segwit {
        input.witness = vec![Bytes(rng.bytes_range(1, 5))];
    }
    TxDesc {
        version: 1,
        segwit,
        inputs: vec![input],
        outputs: vec![OutDesc {
            value: rng.range(1, 1_000_000),
            script: Bytes(crate::ser::p2pkh(&rng.bytes(20))),
        }],
        locktime: 0,
        cs_width: 0,
    }
}

fn small_block(h: u64, n_tx: usize, rng: &mut Rng, segwit: bool) -> BlockDesc {
    let mut txs = vec![small_tx(rng, Some(h), false)];
    for k in 1..n_tx {
        txs.push(small_tx(rng, None, segwit && k == 1));
    }
    BlockDesc {
        version: 1,
        prev: None,
        merkle: None,
        time: 1_400_000_000 + h as u32 * 600,
        bits: 0x1d00ffff,
        nonce: rng.next() as u32,
        auxpow: None,
        txs,
    }
}

fn st_probe_long(h: &mut Harness) {
    h.stats.probe("narrow_range_of_long_chain");
}

fn foreign(rng: &mut Rng, h: u64) -> ExtraBlock {
    let mut b = small_block(h, 2, rng, false);
    b.prev = Some(Bytes(rng.bytes(32)));
    ExtraBlock {
        block: b,
        kind: "foreign".into(),
        index: None,
        parent_height: None,
        parent_extra: None,
    }
}

impl Prop for C09 {
    fn id(&self) -> &'static str {
        "C09"
    }
    fn level(&self) -> &'static str {
        "fault_enumeration"
    }
    fn rule(&self) -> String {
        "completeness: consistent chains with tx counts 1..9,15..17,31..33,63..65,100,255,256,257 per block (a sixth of the multi-tx blocks repeat a transaction so that equal hashes are merkle siblings), random --start, 8 coins (block 0 = the real genesis block for bitcoin/testnet3/litecoin/dogecoin/namecoin/myriadcoin/unobtanium, rebuilt offline and hash-verified; --start 1 for noteblockchain), under benign perturbation: must exit 0 with model-equal output. Soundness, enumerated per sampled world and processed height: every single bit of the prev-hash field, of the merkle-root field and of the txid-covered transaction bytes flipped on the simulated disk (one run each), every block swapped for a block of another chain or of another height, and a non-genesis block 0 for all 8 coins: must exit non-zero, leave no final-named file, report that height if a height is reported, and read no block beyond it. Non-trivial = fault applied inside the processed range (or a consistent chain with >=2 txs in some block); distinct by scenario hash.".into()
    }
    fn exhaustive_note(&self) -> Option<String> {
        Some("per sampled block: every bit of the prev field (256), the merkle field (256) and the witness-stripped tx bytes is flipped; worlds are sampled".into())
    }
    fn items(&self, tier: Tier) -> u64 {
        if tier == Tier::Quick {
            200 + 6 * SLICES
        } else {
            4000 + 120 * SLICES
        }
    }
    fn required_probes(&self, _tier: Tier) -> Vec<&'static str> {
        vec!["flip_prev", "flip_merkle", "flip_tx", "swap_other_height", "swap_foreign", "bad_genesis", "consistent_from_genesis", "consistent_start_gt_0", "odd_level_tree", "flip_at_first_processed_height", "flip_in_auxpow_block", "narrow_range_of_long_chain", "flip_genesis_header_field", "repeated_txid_as_merkle_siblings", "stored_header_differs_from_indexed_outside_prev_and_merkle", "pruned_predecessor_record", "verified_run_over_65536_blocks"]
    }
    fn explore(&self, item: u64, rng: &mut Rng, tier: Tier, h: &mut Harness) -> Result<(), String> {
        let n_cons = if tier == Tier::Quick { 200 } else { 4000 };
        if item == 11 {
            // one verified run over more than 2^16 blocks (whatever a run drops or caches on the way, the link
            // check of every block still finds its predecessor's record)
            let coin = "litecoin";
            let mut scn = new_scenario("C09", "consistent", coin);
            let n = (1usize << 16) + rng.usize(300, 1200);
            scn.chain = marker_chain(0, n, rng);
            if let Some(g) = genesis_block(coin) {
                scn.chain[0] = g;
            }
            scn.layouts = vec![single_file_layout(n)];
            scn.index = index_opts(rng);
            scn.index.storage = "flush".into();
            let mut r = RunSpec::new("simplestats");
            r.verify = true;
            r.threads = 4;
            scn.runs = vec![r];
            h.stats.probe("verified_run_over_65536_blocks");
            h.check(&mut scn)?;
            return Ok(());
        }
        if item < n_cons {
            // ---- completeness
            let coin = COINS[(item % 8) as usize];
            let mut scn = new_scenario("C09", "consistent", coin);
            let g = genesis_block(coin);
            let long = rng.chance(1, 8);
            let mut huge_done = false;
            let nb = if long { rng.usize(80, 260) } else { rng.usize(2, 7) };
            for i in 0..nb {
                if i == 0 {
                    if let Some(g) = &g {
                        scn.chain.push(g.clone());
                        continue;
                    }
                }
                let n_tx = if long {
                    rng.usize(1, 2)
                } else if rng.chance(1, 2) {
                    *rng.pick(&TX_COUNTS)
                } else {
                    rng.usize(1, 9)
                };
                let n_tx = if n_tx == 256 && rng.coin() { 257 } else { n_tx };
                // rarely a block with thousands to tens of thousands of (tiny) transactions: merkle trees 12 to 16 levels
                // high, with odd levels just above 2^11, 2^12, 2^13, 2^14 (round 13, U2-1)
                let n_tx = if !long && !huge_done && rng.chance(1, 100) {
                    huge_done = true;
                    *rng.pick(&[2_049usize, 4_098, 8_193, 16_384, 16_385, 20_000, 32_769])
                } else {
                    n_tx
                };
                let sw = rng.coin();
                let mut b = small_block(i as u64, n_tx, rng, sw);
                // the same transaction twice: identical hashes as siblings at the leaf level or one level
                // up. The header commits to the Bitcoin merkle root of exactly this list, so the chain is
                // consistent in the sense of the statement.
                if n_tx >= 2 && rng.chance(1, 6) {
                    let n = b.txs.len();
                    if n >= 5 && rng.coin() {
                        b.txs[2] = b.txs[0].clone();
                        b.txs[3] = b.txs[1].clone();
                    } else {
                        let k = 2 * rng.usize(0, (n - 2) / 2);
                        b.txs[k + 1] = b.txs[k].clone();
                    }
                    h.stats.probe("repeated_txid_as_merkle_siblings");
                }
                scn.chain.push(b);
            }
            scn.layouts = vec![random_layout(nb, 3, true, rng)];
            scn.index = index_opts(rng);
            // a stored header that differs from the indexed one outside the prev and merkle fields (nonce,
            // time, bits or version): the index key of height k is the hash of the *indexed* header, block
            // k+1 links to that hash, block k's own merkle root and prev link hold — consistent by the statement
            if nb >= 3 && rng.chance(1, 6) {
                let k = rng.usize(1, nb - 1);
                let built = crate::ser::build_all(&scn);
                let mut hdr = built.active[k].bytes[..80].to_vec();
                let at = *rng.pick(&[0usize, 1, 2, 3, 68, 69, 70, 71, 72, 73, 74, 75, 76, 77, 78, 79]);
                hdr[at] ^= 1 << rng.below(8);
                let indexed = sha256d_(&hdr);
                scn.index.key_overrides = vec![(k as u64, Bytes(indexed.to_vec()))];
                if k + 1 < nb {
                    scn.chain[k + 1].prev = Some(Bytes(indexed.to_vec()));
                }
                h.stats.probe("stored_header_differs_from_indexed_outside_prev_and_merkle");
            }
            let cb = *rng.pick(&["csvdump", "csvdump", "unspentcsvdump", "balances", "simplestats", "opreturn"]);
            let mut r = RunSpec::new(cb);
            r.verify = true;
            r.verbosity = *rng.pick(&[0u8, 0, 0, 1, 2]);
            r.threads = pick_threads(rng);
            r.plan = benign_plan(rng);
            fit_chunks(&mut r.plan, chain_bytes(&scn.chain), 150_000);
            fit_writes(&mut r.plan, chain_bytes(&scn.chain) * 3, 300_000);
            let t = nb as u64 - 1;
            if g.is_none() || rng.chance(1, 2) || long {
                r.start = Some(rng.range(1, t));
            }
            if rng.chance(1, 4) || long {
                let s = r.start.unwrap_or(0);
                // long chains: a narrow window (a few blocks of hundreds)
                r.end = Some(if long { s + rng.range(1, 6) } else { rng.range(s + 1, t + 2) });
            }
            if long {
                st_probe_long(h);
            }
            if scn.chain.iter().any(|b| b.txs.len() >= 2_049) {
                h.stats.probe("block_with_2049_plus_txs");
            }
            if scn.chain.iter().any(|b| b.txs.len() >= 16_384) {
                h.stats.probe("block_with_16384_plus_txs");
            }
            // the records below the first processed height as a pruned node keeps them (no data, hash only)
            if let Some(s0) = r.start {
                if s0 >= 1 && rng.chance(1, 3) {
                    scn.index.pruned_below = s0;
                    h.stats.probe("pruned_predecessor_record");
                }
            }
            scn.runs = vec![r];
            h.check(&mut scn)?;
            return Ok(());
        }
        // ---- soundness: one world per (item / SLICES), enumerated in slices
        let (w, slice) = ((item - n_cons) / SLICES, (item - n_cons) % SLICES);
        let mut wr = Rng::stream(h.seed, "C09-world", w);
        let rng = &mut wr;
        let coin = COINS[(w % 8) as usize];
        let mut world = new_scenario("C09", "bitflip", coin);
        let g = genesis_block(coin);
        let nb = rng.usize(3, 4);
        for i in 0..nb {
            if i == 0 {
                if let Some(g) = &g {
                    if w % 2 == 0 {
                        world.chain.push(g.clone());
                        continue;
                    }
                }
            }
            let n_tx = rng.usize(1, 3);
            let sw = rng.chance(1, 3);
            let mut b = small_block(i as u64, n_tx, rng, sw);
            // on AuxPoW coins every other world carries merged-mined blocks: verification must still bite
            if let Some(thr) = coin_params(coin).auxpow_version {
                if (w / 8) % 2 == 0 || i % 2 == 1 {
                    b.version = thr + (rng.below(3) as u32);
                    let sh = TxShape {
                        max_in: 1,
                        max_out: 2,
                        boundary: false,
                        big: false,
                        segwit_ok: true,
                        random_scripts: false,
                        edge_values: false,
                    };
                    let mut a = random_auxpow(coin, rng, &sh);
                    a.coinbase_branch.hashes.truncate(2);
                    a.chain_branch.hashes.truncate(2);
                    b.auxpow = Some(a);
                }
            }
            world.chain.push(b);
        }
        world.extras = vec![foreign(rng, 1), foreign(rng, 2)];
        // another coin's real genesis block (all-zero prev, consistent merkle root): must not pass for this coin
        let other = if coin == "bitcoin" { "testnet3" } else { "bitcoin" };
        if let Some(og) = genesis_block(other) {
            world.extras.push(ExtraBlock {
                block: og,
                kind: "foreign".into(),
                index: None,
                parent_height: None,
                parent_extra: None,
            });
        }
        // a stale sibling of block 1 in the index (earlier-sorting, so it loses the height) and a block built on
        // it: offered in the place of block 2 it links to an *indexed* hash, but not to the hash of height 1
        if w % 3 != 1 {
            let act1 = crate::ser::build_all(&world).active[1].hash;
            let mut sib = small_block(1, 2, rng, false);
            // (its own parent link points elsewhere, so that offering it for height 1 stays a detectable swap)
            sib.prev = Some(Bytes(rng.bytes(32)));
            let mut ok = false;
            for _ in 0..400 {
                if crate::ser::build_block(&sib, [0; 32]).hash < act1 {
                    ok = true;
                    break;
                }
                sib.nonce = sib.nonce.wrapping_add(1);
            }
            if ok {
                world.extras.push(ExtraBlock {
                    block: sib,
                    kind: "stale-sibling".into(),
                    index: Some(ExtraIndex { height: 1, status: 3 | 8 }),
                    parent_height: None,
                    parent_extra: None,
                });
                let sx = world.extras.len() - 1;
                world.extras.push(ExtraBlock {
                    block: small_block(2, 2, rng, false),
                    kind: "child-of-stale-sibling".into(),
                    index: None,
                    parent_height: None,
                    parent_extra: Some(sx),
                });
            }
        }
        let mut lay = single_file_layout(nb);
        for xi in 0..world.extras.len() {
            lay.files[0].segs.push(Seg::Extra { i: xi });
        }
        world.layouts = vec![lay];
        world.index = index_opts(rng);
        let real_genesis = g.is_some() && w % 2 == 0;
        // flags a node may have left in the index (reindex in progress, txindex on, last file): none of them
        // weakens a check
        if (w / 2) % 2 == 0 {
            world.index.extra_keys = vec![
                (Bytes(vec![b'R']), Bytes(vec![b'1'])),
                (Bytes(b"Ftxindex".to_vec()), Bytes(vec![b'1'])),
                (Bytes(vec![b'l']), Bytes(vec![0, 0, 0, 0])),
            ];
        }
        // the predecessor of the first processed block known by its record only (pruned): the link check
        // still compares with its hash
        if !real_genesis && (w / 4) % 2 == 0 {
            world.index.pruned_below = 1;
        }
        let mut base = RunSpec::new(if w % 3 == 0 { "unspentcsvdump" } else { "csvdump" });
        base.verify = true;
        base.verbosity = [0u8, 0, 1, 2][(w % 4) as usize];
        base.threads = 2;
        base.start = if real_genesis { None } else { Some(1) };
        let s = base.start.unwrap_or(0);
        let t = nb as u64 - 1;
        let counter = std::cell::Cell::new(0u64);
        let mine = || {
            let c = counter.get();
            counter.set(c + 1);
            c % SLICES == slice
        };
        let m = Model::new(&world);
        // heights to attack: the first processed one and one more (keeps quick within budget)
        let mut heights = vec![s];
        if s + 1 <= t {
            heights.push(rng.range(s + 1, t));
        }
        for hh in heights {
            let bb = &m.built.active[hh as usize];
            // block 0 must hash to the genesis hash: there every header bit matters; elsewhere only prev and merkle
            let mut offs: Vec<u64> = if hh == 0 && real_genesis { (0..80).collect() } else { (4..68).collect() };
            let tx_start = bb.txs[0].off;
            for o in tx_start..bb.bytes.len() {
                if !bb.txs.iter().any(|t| t.uncovered.iter().any(|u| o >= u.0 && o < u.1)) {
                    offs.push(o as u64);
                }
            }
            for off in offs {
                for bit in 0..8u8 {
                    if mine() {
                        let mut c = world.clone();
                        let mut r = base.clone();
                        r.disk_faults = vec![DiskFault::FlipBit { height: hh, off, bit }];
                        c.runs = vec![r];
                        h.check(&mut c)?;
                    }
                }
            }
        }
        // swaps, for every processed height
        for hh in s..=t {
            for other in 0..=t {
                if other != hh && mine() {
                    let mut c = world.clone();
                    c.family = "swap".into();
                    let mut r = base.clone();
                    r.disk_faults = vec![DiskFault::SwapActive { height: hh, with_height: other }];
                    c.runs = vec![r];
                    h.check(&mut c)?;
                }
            }
            for x in 0..world.extras.len() {
                if mine() {
                    let mut c = world.clone();
                    c.family = "swap".into();
                    let mut r = base.clone();
                    r.disk_faults = vec![DiskFault::SwapExtra { height: hh, with_extra: x }];
                    c.runs = vec![r];
                    h.check(&mut c)?;
                }
            }
        }
        // a block 0 that is not the coin's genesis must be rejected, for every coin
        if slice == 0 {
            for coin in COINS {
                let mut c = new_scenario("C09", "bad-genesis", coin);
                for i in 0..2 {
                    c.chain.push(small_block(i, 2, rng, false));
                }
                c.layouts = vec![single_file_layout(2)];
                c.index = index_opts(rng);
                let mut r = RunSpec::new("csvdump");
                r.verify = true;
                c.runs = vec![r];
                h.check(&mut c)?;
            }
        }
        Ok(())
    }
    fn nontrivial(&self, scn: &Scenario, outs: &[RunOutcome]) -> bool {
        match scn.family.as_str() {
            "consistent" => outs[0].exit.ok() && scn.chain.iter().any(|b| b.txs.len() >= 2),
            _ => !outs[0].exit.ok(),
        }
    }
    fn judge(&self, scn: &Scenario, m: &Model, outs: &[RunOutcome], st: &mut Stats) -> Vec<Violation> {
        let (r, o) = (&scn.runs[0], &outs[0]);
        let mut v = Vec::new();
        let s = r.start.unwrap_or(0);
        if scn.family == "consistent" {
            if s == 0 {
                st.probe("consistent_from_genesis");
            } else {
                st.probe("consistent_start_gt_0");
            }
            if scn.chain.iter().any(|b| b.txs.len() > 2 && (b.txs.len() % 2 == 1 || (b.txs.len() / 2) % 2 == 1)) {
                st.probe("odd_level_tree");
            }
            if !o.exit.ok() {
                v.push(viol("C09/consistent-chain-rejected", format!("consistent chain (tx counts {:?}, start {:?}) rejected with --verify: exit {:?}: {}", scn.chain.iter().map(|b| b.txs.len()).collect::<Vec<_>>(), r.start, o.exit, super::c01::tail(&o.stderr_str()))));
            } else {
                for x in compare_with_model("C09/consistent", m, r, o, &CmpOpts { addr: false, decimals: false }, st) {
                    v.push(viol("C09/consistent-chain-wrong-output", x.detail));
                }
            }
            return v;
        }
        // faulted chains: which height is inconsistent?
        let hh = if scn.family == "bad-genesis" {
            st.probe("bad_genesis");
            0
        } else {
            match r.disk_faults.first() {
                Some(DiskFault::FlipBit { height, off, .. }) => {
                    if *height == 0 && (*off < 4 || *off >= 68) {
                        st.probe("flip_genesis_header_field");
                    } else if *off < 36 {
                        st.probe("flip_prev");
                    } else if *off < 68 {
                        st.probe("flip_merkle");
                    } else {
                        st.probe("flip_tx");
                    }
                    if *height == s {
                        st.probe("flip_at_first_processed_height");
                    }
                    if scn.chain.get(*height as usize).map(|b| b.auxpow.is_some()).unwrap_or(false) {
                        st.probe("flip_in_auxpow_block");
                    }
                    *height
                }
                Some(DiskFault::SwapActive { height, .. }) => {
                    st.probe("swap_other_height");
                    *height
                }
                Some(DiskFault::SwapExtra { height, .. }) => {
                    st.probe("swap_foreign");
                    *height
                }
                _ => return v,
            }
        };
        let what = format!("{:?}", r.disk_faults.first());
        if o.exit.ok() {
            v.push(viol(format!("C09/{}/accepted", scn.family), format!("inconsistent chain accepted with --verify: {} (height {})", what, hh)));
            return v;
        }
        if let Some(n) = error_height(&o.stderr_str()) {
            if n != hh {
                v.push(viol(format!("C09/{}/wrong-height", scn.family), format!("{}: failure reported at height {}, inconsistency is at {}", what, n, hh)));
            }
        }
        if let Some(mx) = o.heights_marked().iter().max() {
            if *mx > hh {
                v.push(viol(format!("C09/{}/read-past-failure", scn.family), format!("{}: blocks up to height {} were fetched, inconsistency is at {}", what, mx, hh)));
            }
        }
        let stems = stems_of(&r.callback);
        for n in new_or_changed(o) {
            if is_final_name(n) && stems.iter().any(|s| n.starts_with(&format!("{}-", s))) {
                v.push(viol(format!("C09/{}/final-file-after-failure", scn.family), format!("{}: final-named file {} exists after the failed run", what, n)));
                break;
            }
        }
        v
    }
}
