//! C04 — only active-chain blocks are delivered; stale and header-only records never are.
use crate::check::*;
use crate::desc::*;
use crate::exec::*;
use crate::gen::*;
use crate::obs::*;
use crate::oracle::*;
use crate::render::Model;
use crate::ser::*;
use crate::util::*;
use std::collections::BTreeMap;

pub struct C04;

const KINDS: [(&str, u64); 8] = [
    ("header-only", 2),                 // VALID_TREE, no data
    ("header-only", 1),                 // VALID_HEADER
    ("header-only-failed", 2 | 64),     // header of a descendant of an invalid block (FAILED_CHILD)
    ("header-only-failed", 2 | 32),     // header marked FAILED_VALID
    ("stale-unconnected-data", 3 | 8),  // VALID_TRANSACTIONS | HAVE_DATA
    ("failed-data", 3 | 8 | 32),        // … | FAILED_VALID
    ("failed-child-data", 3 | 8 | 64),  // … | FAILED_CHILD
    ("reorged-out-data", 5 | 8 | 16),   // VALID_SCRIPTS | HAVE_DATA | HAVE_UNDO (once active)
];

fn competitor_block(tag: usize, h: u64, rng: &mut Rng) -> BlockDesc {
    BlockDesc {
        version: 1,
        prev: None,
        merkle: None,
        time: 1_300_000_000u32.wrapping_add((h as u32).wrapping_mul(600)).wrapping_add(17).max(1),
        bits: 0x1d00ffff,
        nonce: rng.next() as u32,
        auxpow: None,
        txs: vec![TxDesc {
            version: 1,
            segwit: false,
            inputs: vec![coinbase_input(h + 5_000_000, rng)],
            outputs: vec![
                OutDesc {
                    value: 777_000_000 + tag as u64,
                    script: Bytes(p2pkh(&marker_addr_hash(9_000_000 + tag as u64, 0))),
                },
                OutDesc {
                    value: 0,
                    script: Bytes(op_return(format!("x{}", tag).as_bytes())),
                },
            ],
            locktime: 0xC0FFEE,
            cs_width: 0,
        }],
    }
}

/// Competitor records that the program (as it is) correctly ignores: header-only records anywhere, and
/// data-bearing stale blocks at occupied heights whose key sorts before the active block's.
/// Used by other properties to make the index non-trivial without touching C04's known defect.
pub fn add_ignored_competitors(scn: &mut Scenario, rng: &mut Rng) {
    let t = scn.base_height + scn.chain.len() as u64 - 1;
    let active = build_all(scn).active;
    let mut tag = 500usize;
    // a node stopped while syncing: blocks downloaded ahead of the tip (data on disk, never connected) with a
    // hole between them and the tip — at most a header is known for the heights in between. The chain ends at
    // the tip; nothing beyond the hole is part of it.
    if rng.chance(1, 3) {
        let gap = rng.range(1, 3);
        if rng.coin() {
            let b = competitor_block(tag, t + 1, rng);
            scn.extras.push(ExtraBlock {
                block: b,
                kind: "header-only".into(),
                index: Some(ExtraIndex { height: t + 1, status: *rng.pick(&[1u64, 2]) }),
                parent_height: Some(t),
                parent_extra: None,
            });
            tag += 1;
        }
        let mut parent: Option<usize> = None;
        for k in 0..rng.usize(1, 3) {
            let hh = t + 1 + gap + k as u64;
            let b = competitor_block(tag, hh, rng);
            scn.extras.push(ExtraBlock {
                block: b,
                kind: "downloaded-ahead".into(),
                index: Some(ExtraIndex { height: hh, status: 3 | 8 }),
                parent_height: None,
                parent_extra: parent,
            });
            let xi = scn.extras.len() - 1;
            parent = Some(xi);
            for l in scn.layouts.iter_mut() {
                let f = rng.usize(0, l.files.len() - 1);
                l.files[f].segs.push(Seg::Extra { i: xi });
            }
            tag += 1;
        }
    }
    for _ in 0..rng.usize(1, 4) {
        let header_only = rng.coin() || scn.chain.len() < 2;
        let hh = if header_only && rng.chance(1, 3) { t + rng.range(1, 3) } else { rng.range(scn.base_height + 1, t.max(scn.base_height + 1)).min(t) };
        if hh <= scn.base_height {
            continue;
        }
        let mut b = competitor_block(tag, hh, rng);
        let status = if header_only { *rng.pick(&[2u64, 1, 66, 34]) } else { 3 | 8 };
        scn.extras.push(ExtraBlock {
            block: b.clone(),
            kind: if header_only { "header-only".into() } else { "stale-unconnected-data".into() },
            index: Some(ExtraIndex { height: hh, status }),
            parent_height: Some(hh - 1),
            parent_extra: None,
        });
        let xi = scn.extras.len() - 1;
        if !header_only {
            // grind until the key sorts BEFORE the active block's key (the active record then wins the height)
            let act = active[(hh - scn.base_height) as usize].hash;
            let mut ok = false;
            for _ in 0..200 {
                if build_all(scn).extras[xi].hash < act {
                    ok = true;
                    break;
                }
                b.nonce = b.nonce.wrapping_add(1);
                scn.extras[xi].block = b.clone();
            }
            if !ok {
                scn.extras.pop();
                continue;
            }
            for l in scn.layouts.iter_mut() {
                let f = rng.usize(0, l.files.len() - 1);
                l.files[f].segs.push(Seg::Extra { i: xi });
            }
        }
        tag += 1;
    }
}

impl Prop for C04 {
    fn id(&self) -> &'static str {
        "C04"
    }
    fn rule(&self) -> String {
        "an active chain of 2..12 marker blocks (status VALID_SCRIPTS|HAVE_DATA|HAVE_UNDO, optional bits 128/256, without the undo flag in a quarter of the worlds) plus 0..6 competitor records: header-only (VALID_TREE, serialised without file/pos), never-connected stale siblings with data, failed blocks (FAILED_VALID / FAILED_CHILD) with data, reorged-out branches of length 1..3 that were once active — each at an occupied height or beyond the tip, with the LevelDB key order relative to the active block's hash chosen by grinding the nonce (sorts earlier / later). csvdump plus one more callback are run. Oracle: hash column = active chain, every hashPrev = previous row's hash, no competitor marker (address, OP_RETURN text, txid) in any output. Every wrongly delivered height is attributed to the winning record: class C04/<kind>/<occupied|beyond-tip>/<sorts-later|sorts-earlier|n-a>. Non-trivial = >=1 competitor record; distinct by scenario hash.".into()
    }
    fn items(&self, tier: Tier) -> u64 {
        if tier == Tier::Quick {
            1500
        } else {
            20000
        }
    }
    fn required_probes(&self, _tier: Tier) -> Vec<&'static str> {
        vec!["header_only_at_occupied", "header_only_beyond_tip", "competitor_sorts_earlier", "competitor_sorts_later", "competitor_beyond_tip", "reorged_branch_len_ge_2", "no_competitor_baseline", "active_records_without_undo_flag", "active_block_unreadable_where_a_competitor_is_stored", "index_beyond_2_pow_19_records", "competitor_beyond_a_hole"]
    }
    fn explore(&self, item: u64, rng: &mut Rng, tier: Tier, h: &mut Harness) -> Result<(), String> {
        let coin = COINS[(item % 8) as usize];
        if item == 1499 || (tier == Tier::Thorough && item == 19999) {
            // an index as large as a real one is counted in records (beyond 2^19): the last six active blocks
            // have hashes at the top of the key order, each has a stale competitor with data whose hash is at
            // the bottom of it (sorts earlier: must lose)
            let mut scn = new_scenario("C04", "big-index", coin);
            let n = (1usize << 19) + rng.usize(8, 300);
            scn.chain = marker_chain(0, n, rng);
            let head = {
                let mut tmp = new_scenario("C04", "tmp", coin);
                tmp.chain = scn.chain[..n - 6].to_vec();
                build_all(&tmp).active.last().map(|b| b.hash).unwrap_or([0; 32])
            };
            let mut prev = head;
            for i in n - 6..n {
                loop {
                    let bb = build_block(&scn.chain[i], prev);
                    if bb.hash[0] >= 0xe0 {
                        prev = bb.hash;
                        break;
                    }
                    scn.chain[i].nonce = scn.chain[i].nonce.wrapping_add(1);
                }
            }
            let mut lay = single_file_layout(n);
            for k in 0..6usize {
                let hh = (n - 6 + k) as u64;
                let mut b = competitor_block(k, hh, rng);
                loop {
                    let bb = build_block(&b, [0x11; 32]);
                    if bb.hash[0] <= 0x0f {
                        break;
                    }
                    b.nonce = b.nonce.wrapping_add(1);
                }
                b.prev = Some(Bytes(vec![0x11; 32]));
                scn.extras.push(ExtraBlock {
                    block: b,
                    kind: "stale-unconnected-data".into(),
                    index: Some(ExtraIndex { height: hh, status: 3 | 8 }),
                    parent_height: None,
                    parent_extra: None,
                });
                lay.files[0].segs.push(Seg::Extra { i: k });
            }
            scn.layouts = vec![lay];
            scn.index = index_opts(rng);
            scn.index.storage = "flush".into();
            let mut r = RunSpec::new("csvdump");
            r.start = Some(n as u64 - 7);
            r.threads = 4;
            scn.runs = vec![r];
            h.stats.probe("index_beyond_2_pow_19_records");
            h.check(&mut scn)?;
            return Ok(());
        }
        let mut scn = new_scenario("C04", "forks", coin);
        let nb = rng.usize(2, 12);
        scn.chain = marker_chain(0, nb, rng);
        let t = nb as u64 - 1;
        let active = build_all(&scn).active;
        let n_comp = if item % 10 == 0 { 0 } else { rng.usize(1, 6) };
        let mut tag = 0usize;
        while scn.extras.len() < n_comp {
            let (kind, status) = *rng.pick(&KINDS);
            let branch_len = if kind == "reorged-out-data" { rng.usize(1, 3) } else { 1 };
            // fork point: the branch starts at height fh (parent = active block fh-1)
            let fh = if rng.chance(1, 4) { t + 1 + if rng.chance(1, 3) { rng.range(1, 3) } else { 0 } } else { rng.range(1, t) };
            if fh > t + 1 {
                h.stats.probe("competitor_beyond_a_hole");
            }
            let mut parent_extra: Option<usize> = None;
            for k in 0..branch_len {
                let hh = fh + k as u64;
                let mut b = competitor_block(tag, hh, rng);
                // choose the key order relative to the active block at this height
                let want_later = rng.coin();
                let x = ExtraBlock {
                    block: b.clone(),
                    kind: kind.to_string(),
                    index: Some(ExtraIndex { height: hh, status }),
                    parent_height: if parent_extra.is_none() { Some(fh - 1) } else { None },
                    parent_extra,
                };
                scn.extras.push(x);
                let xi = scn.extras.len() - 1;
                if hh <= t {
                    let act = active[hh as usize].hash;
                    for _ in 0..64 {
                        let built = build_all(&scn).extras;
                        let later = built[xi].hash > act;
                        if later == want_later {
                            break;
                        }
                        b.nonce = b.nonce.wrapping_add(1);
                        scn.extras[xi].block = b.clone();
                    }
                }
                parent_extra = Some(xi);
                tag += 1;
            }
        }
        // layout: active blocks and data-bearing competitors mixed over 1..3 files
        let mut lay = random_layout(nb, 3, true, rng);
        for (i, x) in scn.extras.iter().enumerate() {
            if x.index.as_ref().map(|ix| ix.status & 8 != 0).unwrap_or(false) {
                let f = rng.usize(0, lay.files.len() - 1);
                let at = rng.usize(0, lay.files[f].segs.len());
                lay.files[f].segs.insert(at, Seg::Extra { i });
            }
        }
        scn.layouts = vec![lay];
        scn.index = index_opts(rng);
        // active records that do not carry HAVE_UNDO (the flag is no part of what makes a block active
        // for the program): a competitor that has it must not gain anything from that
        if rng.chance(1, 4) {
            scn.index.active_clear_status = 16;
            h.stats.probe("active_records_without_undo_flag");
        }
        let other = *rng.pick(&["unspentcsvdump", "balances", "simplestats", "opreturn"]);
        for cb in ["csvdump", other] {
            let mut r = RunSpec::new(cb);
            r.threads = 2;
            scn.runs.push(r);
        }
        // the active block of a height that also has an (earlier-sorting, hence ignored) data-bearing
        // competitor is unreadable — its blk file is gone while the competitor's is there: the run has to
        // fail; what it must not do is deliver the competitor instead
        if rng.chance(1, 6) {
            let built = build_all(&scn);
            let cand: Vec<u64> = scn
                .extras
                .iter()
                .enumerate()
                .filter_map(|(xi, x)| {
                    let ix = x.index.as_ref()?;
                    if ix.status & 8 != 0 && ix.height <= t && built.extras[xi].hash < built.active[ix.height as usize].hash {
                        Some(ix.height)
                    } else {
                        None
                    }
                })
                .collect();
            if let Some(hh) = cand.first().copied() {
                // one block per file, competitors in files of their own
                let mut files: Vec<BlkFileDesc> = (0..nb)
                    .map(|i| BlkFileDesc {
                        number: i as u64,
                        width: 5,
                        segs: vec![Seg::Active { i }],
                        symlink: false,
                    })
                    .collect();
                for (xi, x) in scn.extras.iter().enumerate() {
                    if x.index.as_ref().map(|ix| ix.status & 8 != 0).unwrap_or(false) {
                        files.push(BlkFileDesc {
                            number: (nb + xi) as u64,
                            width: 5,
                            segs: vec![Seg::Extra { i: xi }],
                            symlink: false,
                        });
                    }
                }
                scn.layouts = vec![Layout {
                    files,
                    xor_key: None,
                    magic_mode: 0,
                    xor_symlink: false,
                    link_chain: false,
                    side_xor: None,
                    extra_files: vec![],
                }];
                for r in scn.runs.iter_mut() {
                    r.disk_faults = vec![DiskFault::RemoveFile { height: hh }];
                }
                scn.family = "active-unreadable".into();
                h.stats.probe("active_block_unreadable_where_a_competitor_is_stored");
            }
        }
        h.check(&mut scn)?;
        Ok(())
    }
    fn nontrivial(&self, scn: &Scenario, outs: &[RunOutcome]) -> bool {
        !scn.extras.is_empty() && outs.iter().any(|o| o.exit.ok())
    }
    fn judge(&self, scn: &Scenario, m: &Model, outs: &[RunOutcome], st: &mut Stats) -> Vec<Violation> {
        let mut v = Vec::new();
        let t = m.tip();
        let by_hash: BTreeMap<String, usize> = m.built.extras.iter().enumerate().map(|(i, b)| (hex_rev(&b.hash), i)).collect();
        if scn.extras.is_empty() {
            st.probe("no_competitor_baseline");
        }
        for (i, x) in scn.extras.iter().enumerate() {
            let ix = match x.index.as_ref() {
                Some(ix) => ix,
                None => continue,
            };
            let beyond = ix.height > t;
            if x.kind.starts_with("header-only") {
                st.probe(if beyond { "header_only_beyond_tip" } else { "header_only_at_occupied" });
            } else if beyond {
                st.probe("competitor_beyond_tip");
            } else if m.built.extras[i].hash > m.built.active[ix.height as usize].hash {
                st.probe("competitor_sorts_later");
            } else {
                st.probe("competitor_sorts_earlier");
            }
            if x.parent_extra.is_some() {
                st.probe("reorged_branch_len_ge_2");
            }
        }
        let class_of = |xi: usize| -> String {
            let x = &scn.extras[xi];
            let hh = match x.index.as_ref() {
                Some(ix) => ix.height,
                None => return format!("C04/{}/unindexed-block-delivered", x.kind),
            };
            if hh > t {
                // contiguous with the tip (the known weakness) or separated from it by a height no admitted
                // record claims (the driver loop stops there: never delivered on the pinned tree)
                let admitted: std::collections::BTreeSet<u64> = scn.extras.iter().filter_map(|e| e.index.as_ref()).filter(|ix| ix.status & 12 != 0 && ix.height > t).map(|ix| ix.height).collect();
                let mut top = t;
                while admitted.contains(&(top + 1)) {
                    top += 1;
                }
                if hh > top {
                    format!("C04/{}/beyond-a-hole/n-a", x.kind)
                } else {
                    format!("C04/{}/beyond-tip/n-a", x.kind)
                }
            } else {
                let later = m.built.extras[xi].hash > m.built.active[hh as usize].hash;
                format!("C04/{}/occupied/{}", x.kind, if later { "sorts-later" } else { "sorts-earlier" })
            }
        };
        let ci = scn.runs.iter().position(|r| r.callback == "csvdump");
        let mut csv_clean = false;
        if let Some(ci) = ci {
            let o = &outs[ci];
            if !o.exit.ok() && !scn.runs[ci].disk_faults.is_empty() {
                // expected: the active block of that height cannot be read
            } else if !o.exit.ok() {
                // a competitor may also make the run fail (e.g. its data unreadable): not a delivery, but the active chain was not delivered either
                v.push(viol("C04/run-failed", format!("exit {:?}: {}", o.exit, super::c01::tail(&o.stderr_str()))));
            } else {
                let f = run_files(o, "blocks");
                if f.len() != 1 {
                    v.push(viol("C04/files-missing", "blocks file missing"));
                } else {
                    let text = String::from_utf8_lossy(f[0].3).into_owned();
                    let mut prev_hash: Option<String> = None;
                    let mut rows = 0u64;
                    csv_clean = true;
                    for l in text.lines() {
                        let c: Vec<&str> = l.split(';').collect();
                        if c.len() < 5 {
                            continue;
                        }
                        let (hash, height, hprev) = (c[0], c[1].parse::<u64>().unwrap_or(u64::MAX), c[4]);
                        rows += 1;
                        let expected = if height <= t { Some(hex_rev(&m.built.active[height as usize].hash)) } else { None };
                        if expected.as_deref() != Some(hash) {
                            csv_clean = false;
                            match by_hash.get(hash) {
                                Some(xi) => v.push(viol(class_of(*xi), format!("height {}: delivered block {} is the {} competitor #{} (status {}), not the active block", height, hash, scn.extras[*xi].kind, xi, scn.extras[*xi].index.as_ref().map(|i| i.status).unwrap_or(0)))),
                                None => v.push(viol("C04/unknown-block-delivered", format!("height {}: delivered block {} is neither the active block nor a known competitor", height, hash))),
                            }
                        } else if let Some(p) = &prev_hash {
                            if p != hprev && csv_clean {
                                v.push(viol("C04/broken-prev-link", format!("height {}: hashPrev {} is not the hash of the block delivered before it ({})", height, hprev, p)));
                            }
                        }
                        prev_hash = Some(hash.to_string());
                    }
                    if csv_clean && rows != t + 1 {
                        // range questions belong to C02; only flag missing active blocks when competitors exist beyond the tip
                        st.abstain("C04: row count differs from chain length (range is C02's business)", 1);
                    }
                }
            }
        }
        // the other callback: no competitor marker may appear
        for (r, o) in scn.runs.iter().zip(outs.iter()) {
            let faulted = !r.disk_faults.is_empty();
            if (r.callback == "csvdump" && !faulted) || (!o.exit.ok() && !faulted) {
                continue;
            }
            let mut hay = o.stdout_str();
            for (_, c) in &o.dump {
                hay.push_str(&String::from_utf8_lossy(c));
            }
            for (xi, xb) in m.built.extras.iter().enumerate() {
                let txid = hex_rev(&xb.txs[0].txid);
                let addr = crate::util::base58check(coin_params(&scn.coin).version_id, &marker_addr_hash(9_000_000 + xi as u64, 0));
                let marker = format!("data: x{}", xi);
                let hit = hay.contains(&txid) || hay.contains(&addr) || hay.lines().any(|l| l.ends_with(&marker));
                if hit {
                    if csv_clean {
                        v.push(viol(format!("C04/{}/competitor-output-without-delivery", r.callback), format!("{} output contains data of competitor #{} ({}) although csvdump delivered the active chain", r.callback, xi, scn.extras[xi].kind)));
                    } else if !v.iter().any(|x| x.class == class_of(xi)) {
                        v.push(viol(class_of(xi), format!("{} output contains transactions of the {} competitor #{}", r.callback, scn.extras[xi].kind, xi)));
                    }
                }
            }
            if csv_clean && !faulted {
                for x in compare_with_model("C04", m, r, o, &CmpOpts { addr: true, decimals: false }, st) {
                    v.push(viol(format!("C04/{}/output-differs-from-active-chain", r.callback), x.detail));
                }
            }
        }
        v
    }
}
