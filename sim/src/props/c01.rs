//! C01 — csvdump reproduces every on-disk field exactly.
use crate::check::*;
use crate::desc::*;
use crate::exec::*;
use crate::gen::*;
use crate::obs::*;
use crate::oracle::*;
use crate::render::Model;
use crate::selftest::genesis_block;
use crate::util::*;

pub struct C01;

impl Prop for C01 {
    fn id(&self) -> &'static str {
        "C01"
    }
    fn rule(&self) -> String {
        "seeded chains (1..40 blocks quick, ..300 thorough; 1..5 txs usually; swarm-selected boundary shapes: tx/in/out counts 0xfc/0xfd/0xfe (thorough 65535/65536 txs), script and witness lengths 0,1,252..256,65535..65537,20-100KB, witness stacks 0/1/252/253, u32/u64 extremes, legacy+segwit) x 8 coins x --verify on/off, each run under swarm-selected benign perturbation (layout, XOR, read chunking, writer capacity 1B..4MB, short writes, EINTR, threads, delays). Oracle: the four CSV files byte-identical to the reference rendering (address column excluded: C05/C06), totals in the summary = rows written. Non-trivial = exit 0 and >=1 block row; distinct by scenario hash.".into()
    }
    fn items(&self, tier: Tier) -> u64 {
        if tier == Tier::Quick {
            1500
        } else {
            20000
        }
    }
    fn required_probes(&self, tier: Tier) -> Vec<&'static str> {
        if tier == Tier::Thorough {
            vec!["count_0xfd_or_more", "len_64k_or_more", "segwit_tx", "verify_on", "midrun_flush", "txcount_65536"]
        } else {
            vec!["count_0xfd_or_more", "segwit_tx", "verify_on", "midrun_flush", "noncanonical_compactsize", "high_segment_with_arbitrary_coinbase_script", "size_prefix_differs_from_block_length", "tx_with_over_100k_outputs"]
        }
    }
    fn explore(&self, item: u64, rng: &mut Rng, tier: Tier, h: &mut Harness) -> Result<(), String> {
        let coin = COINS[(item % 8) as usize];
        let mut scn = new_scenario("C01", "rich", coin);
        let huge = tier == Tier::Thorough && item % 400 == 7;
        let sh = TxShape {
            max_in: 4,
            max_out: 5,
            boundary: rng.chance(1, 3),
            big: rng.chance(1, 8),
            segwit_ok: rng.chance(3, 4),
            random_scripts: rng.coin(),
            edge_values: true,
        };
        let nb = if rng.chance(1, 10) {
            rng.usize(20, if tier == Tier::Quick { 40 } else { 300 })
        } else {
            rng.usize(1, 8)
        };
        let verify = rng.coin();
        let high_segment = rng.chance(1, 5);
        let gen0 = if verify && !high_segment { genesis_block(coin) } else { None };
        let arbitrary = rng.chance(2, 3);
        for i in 0..nb {
            if i == 0 {
                if let Some(g) = &gen0 {
                    scn.chain.push(g.clone());
                    continue;
                }
            }
            let n_tx = if huge && i == 1 {
                *rng.pick(&[65535usize, 65536])
            } else if sh.boundary && rng.chance(1, 30) {
                *rng.pick(&[252usize, 253, 254])
            } else {
                rng.usize(1, 5)
            };
            let small = TxShape {
                max_in: 1,
                max_out: 1,
                boundary: false,
                big: false,
                segwit_ok: sh.segwit_ok,
                random_scripts: false,
                edge_values: true,
            };
            scn.chain.push(rich_block(coin, i as u64, n_tx, rng, if n_tx > 200 { &small } else { &sh }, arbitrary));
        }
        // one transaction with more than 100 000 outputs (a near-full block of tiny outputs)
        if item == 77 {
            if let Some(b) = scn.chain.last_mut() {
                if let Some(t) = b.txs.last_mut() {
                    let n = *rng.pick(&[100_001usize, 100_002, 131_073]);
                    t.outputs = (0..n).map(|k| OutDesc { value: k as u64, script: Bytes(if k % 1000 == 0 { vec![0x51] } else { vec![] }) }).collect();
                    t.cs_width = 0;
                    h.stats.probe("tx_with_over_100k_outputs");
                }
            }
        }
        // a segwit transaction with a witness item of 1..4 MB (consensus-legal, e.g. large tapscript witnesses)
        if item % 97 == 5 || (tier == Tier::Thorough && item % 29 == 3) {
            if let Some(b) = scn.chain.last_mut() {
                if let Some(t) = b.txs.last_mut() {
                    t.segwit = true;
                    let n = *rng.pick(&[1_000_001usize, 1_500_000, 3_900_000]);
                    let fill = rng.next() as u8;
                    t.inputs[0].witness.push(Bytes(vec![fill; n]));
                    h.stats.probe("witness_item_over_1mb");
                }
            }
        }
        // wider-than-necessary CompactSize encodings (kept verbatim by VarUint.buf, txid over the stored bytes)
        if rng.chance(1, 8) {
            scn.family = "noncanonical-compactsize".into();
            for b in scn.chain.iter_mut().skip(if gen0.is_some() { 1 } else { 0 }) {
                for t in b.txs.iter_mut() {
                    if rng.coin() {
                        t.cs_width = *rng.pick(&[3u8, 5, 9]);
                    }
                }
            }
        }
        // "blocksize the stored length prefix": a prefix that is not the length of what follows it (smaller or
        // larger) is reported as stored and delimits nothing
        if rng.chance(1, 8) {
            let d = *rng.pick(&[-1i64, -7, -80, -100_000, 1, 9, 1_000, 5_000_000]);
            scn.params = serde_json::json!({ "size_prefix_delta": d });
            h.stats.probe("size_prefix_differs_from_block_length");
        }
        let mut lay = random_layout(scn.chain.len(), 3, true, rng);
        if rng.chance(1, 3) {
            let kl = *rng.pick(&[8usize, 8, 1, 3, 64]);
            lay.xor_key = Some(Bytes(rng.bytes(kl)));
        }
        scn.layouts = vec![lay];
        scn.index = index_opts(rng);
        let mut r = RunSpec::new("csvdump");
        r.verify = verify;
        if verify && gen0.is_none() {
            if scn.chain.len() < 2 {
                let b = rich_block(coin, 1, 1, rng, &sh, arbitrary);
                scn.chain.push(b);
                scn.layouts = vec![random_layout(scn.chain.len(), 2, false, rng)];
            }
            r.start = Some(1);
        }
        // an index segment high up the chain (above the heights where later consensus rules start), with the
        // coinbase scriptSig — arbitrary miner bytes — in every shape: height push, short, truncated push
        if high_segment {
            let base = *rng.pick(&[21_111u64, 227_930, 227_931, 481_824, 709_632]);
            scn.base_height = base;
            let aux_thr = coin_params(coin).auxpow_version;
            for (i, b) in scn.chain.iter_mut().enumerate() {
                let hh = base + i as u64;
                let ss = match rng.below(5) {
                    0 => coinbase_input(hh, rng).script_sig.0,
                    1 => rng.bytes_range(0, 6),
                    2 => vec![*rng.pick(&[1u8, 2, 3, 4, 5, 8]), rng.next() as u8],
                    3 => vec![*rng.pick(&[1u8, 3, 4, 8, 0x4c, 0x4d, 0x4e])],
                    _ => b.txs[0].inputs[0].script_sig.0.clone(),
                };
                b.txs[0].inputs[0].script_sig = Bytes(ss);
                if b.auxpow.is_none() && rng.coin() {
                    let v = *rng.pick(&[2u32, 3, 4, 0x2000_0000, 0x3fff_e000]);
                    if aux_thr.map(|t| v < t).unwrap_or(true) {
                        b.version = v;
                    }
                }
            }
            r.start = Some(base + if verify { 1 } else { 0 });
            h.stats.probe("high_segment_with_arbitrary_coinbase_script");
        }
        r.threads = pick_threads(rng);
        r.plan = benign_plan(rng);
        fit_chunks(&mut r.plan, chain_bytes(&scn.chain), 150_000);
        fit_writes(&mut r.plan, chain_bytes(&scn.chain) * 3, 300_000);
        scn.runs = vec![r];
        super::dress(&mut scn, rng, false);
        h.check(&mut scn)?;
        Ok(())
    }
    fn nontrivial(&self, _scn: &Scenario, outs: &[RunOutcome]) -> bool {
        outs[0].exit.ok() && !final_files(&outs[0].dump, "blocks").is_empty()
    }
    fn judge(&self, scn: &Scenario, m: &Model, outs: &[RunOutcome], st: &mut Stats) -> Vec<Violation> {
        let o = &outs[0];
        let r = &scn.runs[0];
        let mut v = Vec::new();
        // probes
        let mut any_segwit = false;
        let mut big_count = false;
        let mut big_len = false;
        for b in &scn.chain {
            if b.txs.len() >= 0xfd {
                big_count = true;
            }
            if b.txs.len() >= 65536 {
                st.probe("txcount_65536");
            }
            for t in &b.txs {
                any_segwit |= t.segwit;
                big_count |= t.inputs.len() >= 0xfd || t.outputs.len() >= 0xfd;
                for i in &t.inputs {
                    big_len |= i.script_sig.0.len() >= 65536 || i.witness.iter().any(|w| w.0.len() >= 65536);
                    big_count |= i.witness.len() >= 0xfd;
                }
                for o in &t.outputs {
                    big_len |= o.script.0.len() >= 65536;
                }
            }
        }
        if any_segwit {
            st.probe("segwit_tx");
        }
        if big_count {
            st.probe("count_0xfd_or_more");
        }
        if big_len {
            st.probe("len_64k_or_more");
        }
        if r.verify {
            st.probe("verify_on");
        }
        if scn.chain.iter().any(|b| b.txs.iter().any(|t| t.cs_width > 1)) {
            st.probe("noncanonical_compactsize");
        }
        if scn.chain.iter().any(|b| b.auxpow.is_some()) {
            st.probe("auxpow_block");
        }
        // a write event before the first rename = a mid-run flush happened
        let first_rename = o.trace.iter().position(|e| e.op == "rename");
        let last_height = o.trace.iter().rposition(|e| e.op == "height");
        if let (Some(_), Some(lh)) = (first_rename, last_height) {
            if o.trace[..lh].iter().any(|e| e.op == "write") {
                st.probe("midrun_flush");
            }
        }
        if !o.exit.ok() {
            v.push(viol("C01/run-failed", format!("well-formed chain rejected: exit {:?}: {}", o.exit, tail(&o.stderr_str()))));
            return v;
        }
        match compare_csvdump("C01", m, o, false, st) {
            Err(x) => v.push(x),
            Ok(c) => {
                // totals in the summary equal the rows written
                match csv_summary(&o.stdout_str()) {
                    Some((t, i, ou)) => {
                        if (t, i, ou) != (c.rows.1, c.rows.2, c.rows.3) {
                            v.push(viol("C01/summary-totals", format!("summary says tx={} in={} out={} but files hold {} / {} / {} rows", t, i, ou, c.rows.1, c.rows.2, c.rows.3)));
                        }
                    }
                    None => v.push(viol("C01/summary-missing", "completion summary not found on stdout")),
                }
            }
        }
        v
    }
}

pub fn tail(s: &str) -> String {
    let t: Vec<&str> = s.lines().rev().take(6).collect();
    t.into_iter().rev().collect::<Vec<_>>().join(" | ")
}
