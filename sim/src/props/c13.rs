//! C13 — output depends only on data directory and options, never on scheduling or reruns.
use crate::check::*;
use crate::desc::*;
use crate::exec::*;
use crate::gen::*;
use crate::obs::*;
use crate::oracle::*;
use crate::render::Model;
use crate::ser::*;
use crate::util::*;
use serde_json::json;

pub struct C13;

const CBS: [&str; 5] = ["csvdump", "unspentcsvdump", "balances", "simplestats", "opreturn"];
const THREADS: [usize; 6] = [1, 2, 3, 8, 16, 64];
const MODES: [&str; 5] = ["none", "asc", "desc", "random", "straggler"];

/// a block whose txs / outputs carry their index in the delay keys (locktime, value % 32)
fn wide_block(coin: &str, h: u64, n_tx: usize, max_out: usize, rng: &mut Rng) -> BlockDesc {
    let mut txs = Vec::with_capacity(n_tx);
    for k in 0..n_tx {
        let n_out = if rng.chance(1, 6) { rng.usize(1, max_out) } else { rng.usize(1, 6.min(max_out)) };
        let outputs = (0..n_out)
            .map(|j| OutDesc {
                value: (j as u64 % 32) + 32 * rng.below(100_000),
                script: Bytes(match rng.below(5) {
                    0 => op_return(format!("t{}o{}", k, j).as_bytes()),
                    1 => p2sh(&rng.bytes(20)),
                    2 => {
                        let c = rng.coin();
                        p2pk(&fake_pubkey(rng, c))
                    }
                    _ => p2pkh(&rng.bytes(20)),
                }),
            })
            .collect();
        let input = if k == 0 {
            coinbase_input(h, rng)
        } else {
            InDesc {
                prev_txid: Bytes(rng.bytes(32)),
                prev_index: rng.below(4) as u32,
                script_sig: Bytes(rng.bytes_range(0, 30)),
                sequence: 0xffff_ffff,
                witness: vec![],
            }
        };
        txs.push(TxDesc {
            version: 1,
            segwit: false,
            inputs: vec![input],
            outputs,
            locktime: k as u32,
            cs_width: 0,
        });
    }
    let _ = coin;
    BlockDesc {
        version: 1,
        prev: None,
        merkle: None,
        time: 1_400_000_000 + h as u32 * 600,
        bits: 0x1d00ffff,
        nonce: rng.next() as u32,
        auxpow: None,
        txs,
    }
}

impl Prop for C13 {
    fn id(&self) -> &'static str {
        "C13"
    }
    fn rule(&self) -> String {
        "(a) schedules: worlds with 1..400 txs per block and 1..2000 outputs per tx, each run 10-14 times for one callback over RAYON_NUM_THREADS in {1,2,3,8,16,64} x completion-order perturbation {none, ascending, descending, random x seeds, one-straggler} (delay = pure function of plan seed and item key), 16 such processes running concurrently; all normalised outputs must be identical to each other and to the reference model. (b) histories: 2..6 runs (random callbacks/ranges, some repeated) sharing one dump folder pre-seeded with stale *.csv.tmp files longer than the new content, earlier results and unrelated files; after each step the run's files equal the model and every other file is untouched. (c) immutability: SHA-256 of blk*.dat/xor.dat and the key/value content of index/ (read from a copy) identical before/after every run of (b), and the rerun on the reopened index gives the same output. Non-trivial = (a) >=2 workers and >=2 items in a parallel call, (b,c) >=2 runs succeeded; distinct by scenario hash.".into()
    }
    fn items(&self, tier: Tier) -> u64 {
        if tier == Tier::Quick {
            160
        } else {
            3000
        }
    }
    fn required_probes(&self, _tier: Tier) -> Vec<&'static str> {
        vec!["txs_ge_100_in_block", "outputs_ge_500_in_tx", "threads_64", "stale_tmp_longer_than_output", "same_name_rerun", "index_files_rewritten", "index_has_non_active_records", "same_length_stale_result", "more_workers_than_txs_in_a_block_of_128_plus", "empty_range_run_with_stale_tmp", "tx_with_1000_plus_inputs", "lock_and_pid_files_in_dump_folder"]
    }
    fn explore(&self, item: u64, rng: &mut Rng, _tier: Tier, h: &mut Harness) -> Result<(), String> {
        let coin = COINS[(item % 8) as usize];
        if item % 2 == 0 {
            // ---- (a) schedules
            let mut scn = new_scenario("C13", "schedules", coin);
            let nb = rng.usize(1, 3);
            let uniform = rng.chance(1, 3);
            for i in 0..nb {
                if uniform {
                    // all transactions of identical shape, size and value: every maximum is a tie
                    let n_tx = rng.usize(8, 120);
                    let mut b = wide_block(coin, i as u64, n_tx, 1, rng);
                    for (k, t) in b.txs.iter_mut().enumerate() {
                        if k > 0 {
                            t.inputs[0].script_sig = Bytes(vec![7u8; 20]);
                            t.inputs[0].prev_index = 0;
                            t.outputs = vec![OutDesc {
                                value: 5_000 + 32 * 7,
                                script: Bytes(p2pkh(&rng.bytes(20))),
                            }];
                        }
                    }
                    scn.chain.push(b);
                    continue;
                }
                let (n_tx, max_out) = match rng.below(4) {
                    0 => (rng.usize(100, 400), 4),
                    1 => (rng.usize(1, 3), rng.usize(500, 2000)),
                    2 => (rng.usize(20, 60), 40),
                    _ => (rng.usize(2, 12), 12),
                };
                scn.chain.push(wide_block(coin, i as u64, n_tx, max_out, rng));
            }
            // a "sweep": one transaction with a thousand and more inputs (the tx_in rows of one transaction)
            if rng.chance(1, 4) {
                let bi = rng.usize(0, nb - 1);
                if scn.chain[bi].txs.len() >= 2 {
                    let ti = rng.usize(1, scn.chain[bi].txs.len() - 1);
                    let n_in = *rng.pick(&[1023usize, 1024, 1500, 3000]);
                    let tx = &mut scn.chain[bi].txs[ti];
                    tx.inputs = (0..n_in)
                        .map(|j| InDesc {
                            prev_txid: Bytes(rng.bytes(32)),
                            prev_index: j as u32,
                            script_sig: Bytes(vec![(j % 251) as u8; 1 + j % 5]),
                            sequence: j as u32,
                            witness: vec![],
                        })
                        .collect();
                    h.stats.probe("tx_with_1000_plus_inputs");
                }
            }
            scn.layouts = vec![single_file_layout(nb)];
            scn.index = index_opts(rng);
            let cb = CBS[(item / 2 % 5) as usize];
            let verbose_schedules = rng.chance(1, 4);
            let mut combos: Vec<(usize, &str)> = vec![(1, "none")];
            for t in THREADS.iter().skip(1) {
                combos.push((*t, *rng.pick(&MODES)));
            }
            for _ in 0..rng.usize(4, 8) {
                combos.push((*rng.pick(&THREADS[1..]), *rng.pick(&MODES[1..])));
            }
            // more workers than the largest block has transactions (an empty share per worker must be harmless)
            if rng.coin() {
                let big = scn.chain.iter().map(|b| b.txs.len()).max().unwrap_or(1);
                let t_hi = if big >= 100 { big + rng.usize(1, 60) } else { *rng.pick(&[129usize, 200, 300]) };
                combos.push((t_hi, *rng.pick(&MODES)));
            }
            for (t, mode) in combos {
                let mut r = RunSpec::new(cb);
                r.threads = t;
                if mode != "none" {
                    r.plan.delay = Some((mode.to_string(), rng.next() >> 1, rng.range(30, 200)));
                }
                if rng.chance(1, 4) {
                    r.plan.writer_cap = Some(*rng.pick(&[64usize, 4096]));
                }
                // diagnostics are evaluated on the workers too
                if verbose_schedules {
                    r.verbosity = 1;
                }
                scn.runs.push(r);
            }
            h.check(&mut scn)?;
            return Ok(());
        }
        // ---- (b)+(c) histories on shared dump folder and data directory
        let mut scn = new_scenario("C13", "history", coin);
        let nb = rng.usize(3, 10);
        scn.chain = marker_chain(0, nb, rng);
        let mut lay = random_layout(nb, 3, true, rng);
        if rng.chance(1, 3) {
            lay.xor_key = Some(Bytes(rng.bytes(8)));
        }
        scn.layouts = vec![lay];
        // index records besides the active chain (ones the loader ignores): a run must not drop or rewrite them
        if rng.chance(2, 3) {
            super::c04::add_ignored_competitors(&mut scn, rng);
        }
        scn.index = index_opts(rng);
        if rng.coin() {
            let mut t = vec![b't'];
            t.extend(rng.bytes(32));
            scn.index.extra_keys = vec![(Bytes(t), Bytes(rng.bytes_range(3, 12))), (Bytes(vec![b'l']), Bytes(vec![1])), (Bytes(b"Ftxindex".to_vec()), Bytes(vec![b'1']))];
        }
        scn.params = json!({"check_immutable": true});
        let t = nb as u64 - 1;
        // stale content
        for st in ["blocks", "transactions", "tx_in", "tx_out", "unspent", "balances"] {
            if rng.coin() {
                scn.dump_pre.push(PreFile {
                    name: format!("{}.csv.tmp", st),
                    bytes: Bytes(vec![b'#'; rng.usize(50_000, 200_000)]),
                });
            }
            if rng.chance(1, 3) {
                scn.dump_pre.push(PreFile {
                    name: format!("{}-0-{}.csv", st, t),
                    bytes: Bytes(b"stale result of an earlier version, longer than nothing\n".repeat(rng.usize(1, 2000))),
                });
            }
        }
        scn.dump_pre.push(PreFile {
            name: "notes.txt".into(),
            bytes: Bytes(b"unrelated".to_vec()),
        });
        // leftovers of whatever else works in that folder: lock and pid files naming a live process (pid 1)
        if rng.coin() {
            for name in [".lock", ".pid", "dump.pid", ".csvdump.lock", ".unspentcsvdump.lock", ".balances.lock", "LOCK", "csvdump.lock"] {
                if rng.coin() {
                    scn.dump_pre.push(PreFile { name: name.into(), bytes: Bytes(b"1\n".to_vec()) });
                }
            }
            h.stats.probe("lock_and_pid_files_in_dump_folder");
        }
        scn.dump_pre.push(PreFile {
            name: "blocks-7-9.csv.bak".into(),
            bytes: Bytes(b"unrelated backup".to_vec()),
        });
        let n_runs = rng.usize(2, 6);
        let mut prev: Option<RunSpec> = None;
        for _ in 0..n_runs {
            let mut r = if prev.is_some() && rng.chance(1, 3) { prev.clone().unwrap() } else { RunSpec::new(*rng.pick(&CBS)) };
            if prev.is_none() || !rng.chance(1, 3) {
                r.start = if rng.chance(1, 3) { Some(rng.range(0, t - 1)) } else { None };
                r.end = if rng.chance(1, 3) { Some(rng.range(r.start.unwrap_or(0) + 1, t + 1)) } else { None };
            }
            r.threads = pick_threads(rng);
            r.fresh_dump = false;
            r.fresh_data = false;
            r.verify = false;
            scn.runs.push(r.clone());
            prev = Some(r);
        }
        // a run whose range is empty (start above the tip): with stale *.tmp files of its tables in the folder
        if rng.chance(1, 4) {
            let mut r = RunSpec::new(*rng.pick(&["csvdump", "csvdump", "unspentcsvdump", "balances"]));
            // above every height the index admits a record for (blocks downloaded ahead of the tip included)
            let top = scn.extras.iter().filter_map(|x| x.index.as_ref()).filter(|ix| ix.status & 12 != 0).map(|ix| ix.height).max().unwrap_or(0).max(t);
            r.start = Some(top + rng.range(1, 5));
            r.threads = 2;
            r.fresh_dump = false;
            r.fresh_data = false;
            let at = rng.usize(1, scn.runs.len());
            scn.runs.insert(at, r);
        }
        scn.runs[0].fresh_data = true;
        // an earlier result with the same NAME and the same LENGTH as what the first run will write, other content
        if rng.chance(1, 2) {
            let r0 = scn.runs[0].clone();
            let m = Model::new(&scn);
            let s0 = r0.start.unwrap_or(0);
            let e0 = r0.end.map(|e| e.min(t)).unwrap_or(t);
            let mut same: Vec<(String, usize)> = vec![];
            match r0.callback.as_str() {
                "csvdump" => {
                    let x = m.csv(s0, e0);
                    for (st, b) in [("blocks", &x.blocks), ("transactions", &x.transactions), ("tx_in", &x.tx_in), ("tx_out", &x.tx_out)] {
                        same.push((format!("{}-{}-{}.csv", st, s0, e0), b.len()));
                    }
                }
                "unspentcsvdump" => {
                    let rows = m.unspent_rows(s0, e0).0;
                    same.push((format!("unspent-{}-{}.csv", s0, e0), 36 + rows.iter().map(|r| r.len() + 1).sum::<usize>()));
                }
                "balances" => {
                    let rows = m.balance_rows(s0, e0).0;
                    same.push((format!("balances-{}-{}.csv", s0, e0), 16 + rows.iter().map(|r| r.len() + 1).sum::<usize>()));
                }
                _ => {}
            }
            for (name, len) in same {
                scn.dump_pre.retain(|p| p.name != name);
                scn.dump_pre.push(PreFile {
                    name,
                    bytes: Bytes(vec![b'?'; len]),
                });
            }
        }
        h.check(&mut scn)?;
        Ok(())
    }
    fn nontrivial(&self, scn: &Scenario, outs: &[RunOutcome]) -> bool {
        let ok = outs.iter().filter(|o| o.exit.ok()).count() >= 2;
        if scn.family == "schedules" {
            ok && scn.chain.iter().any(|b| b.txs.len() >= 2 || b.txs.iter().any(|t| t.outputs.len() >= 2))
        } else {
            ok
        }
    }
    fn judge(&self, scn: &Scenario, m: &Model, outs: &[RunOutcome], st: &mut Stats) -> Vec<Violation> {
        let mut v = Vec::new();
        if scn.family == "schedules" {
            if scn.chain.iter().any(|b| b.txs.len() >= 100) {
                st.probe("txs_ge_100_in_block");
            }
            if scn.chain.iter().any(|b| b.txs.iter().any(|t| t.outputs.len() >= 500)) {
                st.probe("outputs_ge_500_in_tx");
            }
            let mut base: Option<Vec<String>> = None;
            for (i, (r, o)) in scn.runs.iter().zip(outs.iter()).enumerate() {
                if r.threads == 64 {
                    st.probe("threads_64");
                }
                if r.threads > 128 && scn.chain.iter().any(|b| b.txs.len() >= 128 && b.txs.len() < r.threads) {
                    st.probe("more_workers_than_txs_in_a_block_of_128_plus");
                }
                if !o.exit.ok() {
                    v.push(viol("C13/schedule/run-failed", format!("run {} threads={} delay={:?}: exit {:?}: {}", i, r.threads, r.plan.delay, o.exit, super::c01::tail(&o.stderr_str()))));
                    continue;
                }
                let norm = normalized_output(r, o);
                match &base {
                    None => {
                        // the single-threaded run must equal the model; the rest must equal it
                        for x in compare_with_model("C13", m, r, o, &CmpOpts { addr: true, decimals: false }, st) {
                            v.push(viol("C13/schedule/baseline-differs-from-model", x.detail));
                        }
                        base = Some(norm);
                    }
                    Some(b) => {
                        if *b != norm {
                            let d = b.iter().zip(norm.iter()).position(|(x, y)| x != y).unwrap_or(b.len().min(norm.len()));
                            v.push(viol(
                                "C13/schedule/output-differs",
                                format!(
                                    "{} with threads={} delay={:?} differs from the 1-thread run in part {} ({})",
                                    r.callback,
                                    r.threads,
                                    r.plan.delay,
                                    d,
                                    first_diff(b.get(d).map(|s| s.as_bytes()).unwrap_or(b""), norm.get(d).map(|s| s.as_bytes()).unwrap_or(b""))
                                ),
                            ));
                            break;
                        }
                    }
                }
            }
            return v;
        }
        // ---- history
        if !scn.extras.is_empty() || !scn.index.extra_keys.is_empty() {
            st.probe("index_has_non_active_records");
        }
        for (i, (r, o)) in scn.runs.iter().zip(outs.iter()).enumerate() {
            let stems = stems_of(&r.callback);
            let top = scn.extras.iter().filter_map(|x| x.index.as_ref()).filter(|ix| ix.status & 12 != 0).map(|ix| ix.height).max().unwrap_or(0).max(m.tip());
            let empty_range = r.start.map(|x| x > top).unwrap_or(false);
            if empty_range && stems.iter().any(|s| o.dump_before.contains_key(&format!("{}.csv.tmp", s))) {
                st.probe("empty_range_run_with_stale_tmp");
            }
            if !o.exit.ok() && empty_range {
                // refusing an empty range is not a scheduling or rerun matter; it must only leave no result
                if let Some(n) = new_or_changed(o).into_iter().find(|n| is_final_name(n) && stems.iter().any(|s| n.starts_with(&format!("{}-", s)))) {
                    v.push(viol("C13/history/result-differs-from-model", format!("run {} ({}, empty range) failed with {:?} but left {}", i, r.callback, o.exit, n)));
                }
                continue;
            }
            if !o.exit.ok() {
                v.push(viol("C13/history/run-failed", format!("run {} ({} {:?}..{:?}) failed: {:?}: {}", i, r.callback, r.start, r.end, o.exit, super::c01::tail(&o.stderr_str()))));
                continue;
            }
            // stale tmp longer than the new content?
            for s in stems {
                if let Some(old) = o.dump_before.get(&format!("{}.csv.tmp", s)) {
                    let newsz = final_files(&o.dump, s).iter().map(|f| f.3.len()).max().unwrap_or(0);
                    if old.len() > newsz {
                        st.probe("stale_tmp_longer_than_output");
                    }
                }
            }
            if i == 0 {
                let stale_same_len = new_or_changed(o).iter().any(|n| o.dump_before.get(*n).map(|b| b.len() == o.dump[*n].len() && b.iter().all(|c| *c == b'?')).unwrap_or(false));
                if stale_same_len {
                    st.probe("same_length_stale_result");
                }
            }
            if i > 0 && scn.runs[..i].iter().any(|p| p.callback == r.callback && p.start == r.start && p.end == r.end) {
                st.probe("same_name_rerun");
            }
            if empty_range {
                // empty range: whatever was in the folder, the files this run leaves under final names hold
                // what a run in an empty folder leaves — no row (header line for unspent/balances)
                for n in new_or_changed(o) {
                    if !is_final_name(n) || !stems.iter().any(|s| n.starts_with(&format!("{}-", s))) {
                        continue;
                    }
                    let body = &o.dump[n];
                    let ok = body.is_empty() || body.as_slice() == b"txid;indexOut;height;value;address\n" || body.as_slice() == b"address;balance\n";
                    if !ok {
                        v.push(viol("C13/history/result-differs-from-model", format!("run {} ({}, empty range from {:?}, tip {}): {} holds {} bytes that no run over an empty range writes", i, r.callback, r.start, m.tip(), n, body.len())));
                    }
                }
                if o.data_digest_before != o.data_digest_after {
                    v.push(viol("C13/immutability/blk-or-xor-modified", format!("run {} ({}) modified blk*.dat or xor.dat", i, r.callback)));
                }
                continue;
            }
            // the run's own result equals the model
            for x in compare_with_model("C13/history", m, r, o, &CmpOpts { addr: true, decimals: false }, st) {
                v.push(viol("C13/history/result-differs-from-model", format!("run {} ({}): {}", i, r.callback, x.detail)));
            }
            // everything else in the folder is untouched
            let e = reported_range(r, o).map(|x| x.1);
            for (n, c) in &o.dump_before {
                let mine = stems.iter().any(|s| *n == format!("{}.csv.tmp", s) || e.map(|e| *n == format!("{}-{}-{}.csv", s, r.start.unwrap_or(0), e)).unwrap_or(false));
                if !mine && o.dump.get(n) != Some(c) {
                    v.push(viol("C13/history/other-file-changed", format!("run {} ({}) changed or removed {}", i, r.callback, n)));
                }
            }
            for n in o.dump.keys() {
                if !o.dump_before.contains_key(n) {
                    let mine = stems.iter().any(|s| e.map(|e| *n == format!("{}-{}-{}.csv", s, r.start.unwrap_or(0), e)).unwrap_or(false));
                    if !mine {
                        v.push(viol("C13/history/unexpected-file", format!("run {} ({}) created {}", i, r.callback, n)));
                    }
                }
            }
            // (c) data directory immutability
            if o.data_digest_before != o.data_digest_after {
                v.push(viol("C13/immutability/blk-or-xor-modified", format!("run {} ({}) modified blk*.dat or xor.dat", i, r.callback)));
            }
            if let (Some(a), Some(b)) = (&o.index_before, &o.index_after) {
                if a != b {
                    v.push(viol("C13/immutability/index-content-changed", format!("run {} ({}): key/value content of index/ changed ({} -> {} records)", i, r.callback, a.len(), b.len())));
                }
                if i > 0 {
                    st.probe("index_files_rewritten");
                }
            }
        }
        // identical runs in one history give identical results
        for i in 0..scn.runs.len() {
            for j in i + 1..scn.runs.len() {
                let (a, b) = (&scn.runs[i], &scn.runs[j]);
                if a.callback == b.callback && a.start == b.start && a.end == b.end && outs[i].exit.ok() && outs[j].exit.ok() {
                    if normalized_output(a, &outs[i]) != normalized_output(b, &outs[j]) {
                        v.push(viol("C13/history/rerun-differs", format!("runs {} and {} ({}) with the same options differ", i, j, a.callback)));
                    }
                }
            }
        }
        v
    }
}
