//! C02 — exactly heights s..min(e,T) are delivered, once, ascending.
use crate::check::*;
use crate::desc::*;
use crate::exec::*;
use crate::gen::*;
use crate::obs::*;
use crate::render::Model;
use crate::util::*;
use serde_json::json;

pub struct C02;

const CALLBACKS: [&str; 5] = ["csvdump", "unspentcsvdump", "balances", "simplestats", "opreturn"];

/// option shapes for a chain with tip T (absolute heights, base = chain start)
fn shapes(base: u64, t: u64, with_none: bool) -> Vec<(Option<u64>, Option<u64>)> {
    let mut v = Vec::new();
    if with_none {
        v.push((None, None));
    }
    for s in base..=t {
        if s > 0 || base > 0 {
            v.push((Some(s), None));
        }
    }
    if base == 0 {
        v.push((Some(0), None));
        for e in 1..=t + 3 {
            v.push((None, Some(e)));
        }
    }
    for s in base..=t {
        for e in s + 1..=t + 3 {
            v.push((Some(s), Some(e)));
        }
        v.push((Some(s), Some(u64::MAX)));
    }
    if base == 0 {
        v.push((None, Some(u64::MAX)));
    }
    v.dedup();
    v
}

fn col<'a>(line: &'a str, i: usize) -> &'a str {
    line.split(';').nth(i).unwrap_or("")
}

fn expected_heights(m: &Model, r: &RunSpec) -> (u64, u64) {
    let s = r.start.unwrap_or(0);
    let e = r.end.map(|e| e.min(m.tip())).unwrap_or(m.tip());
    (s, e)
}

/// heights revealed by a run's outputs (via the markers), plus file-name and summary facts
fn observe(cb: &str, o: &RunOutcome) -> Result<(Vec<u64>, Option<(u64, u64)>), String> {
    let text = |b: &Vec<u8>| String::from_utf8_lossy(b).into_owned();
    match cb {
        "csvdump" => {
            let f = final_files(&o.dump, "blocks");
            if f.len() != 1 {
                return Err(format!("expected one blocks-*.csv, found {}", f.len()));
            }
            let hs: Vec<u64> = text(f[0].3).lines().map(|l| col(l, 1).parse().unwrap_or(u64::MAX)).collect();
            // every other file must carry the same suffix and reveal the same heights
            let name_rng = (f[0].0, f[0].1);
            for (stem, c, div) in [("transactions", 3usize, 1u64), ("tx_in", 4, 1), ("tx_out", 2, 1000)] {
                let g = final_files(&o.dump, stem);
                if g.len() != 1 || (g[0].0, g[0].1) != name_rng {
                    return Err(format!("{} file missing or named for another range", stem));
                }
                let mut hh: Vec<u64> = text(g[0].3).lines().map(|l| col(l, c).parse::<u64>().unwrap_or(u64::MAX) / div).collect();
                hh.dedup();
                // locktime and sequence are 32-bit fields: they carry the height modulo 2^32
                let hs_seen: Vec<u64> = if div == 1 { hs.iter().map(|h| h & 0xffff_ffff).collect() } else { hs.clone() };
                if hh != hs_seen {
                    return Err(format!("{} rows reveal heights {:?}, blocks file {:?}", stem, hh, hs));
                }
            }
            Ok((hs, Some(name_rng)))
        }
        "unspentcsvdump" => {
            let f = final_files(&o.dump, "unspent");
            if f.len() != 1 {
                return Err(format!("expected one unspent-*.csv, found {}", f.len()));
            }
            let mut hs: Vec<u64> = text(f[0].3).lines().skip(1).map(|l| col(l, 2).parse().unwrap_or(u64::MAX)).collect();
            hs.sort();
            // each marker output is unique; value/1000 must agree with the height column
            for l in text(f[0].3).lines().skip(1) {
                if col(l, 3).parse::<u64>().unwrap_or(0) / 1000 != col(l, 2).parse::<u64>().unwrap_or(u64::MAX) {
                    return Err(format!("unspent row with inconsistent marker: {}", l));
                }
            }
            hs.dedup();
            Ok((hs, Some((f[0].0, f[0].1))))
        }
        "balances" => {
            let f = final_files(&o.dump, "balances");
            if f.len() != 1 {
                return Err(format!("expected one balances-*.csv, found {}", f.len()));
            }
            let mut hs: Vec<u64> = text(f[0].3).lines().skip(1).map(|l| col(l, 1).parse::<u64>().unwrap_or(u64::MAX) / 1000).collect();
            hs.sort();
            hs.dedup();
            Ok((hs, Some((f[0].0, f[0].1))))
        }
        "opreturn" => {
            let mut hs = Vec::new();
            for l in o.plain_stdout_lines() {
                if let Some(r) = l.strip_prefix("height: ") {
                    let h: u64 = r.split_whitespace().next().unwrap_or("").parse().unwrap_or(u64::MAX);
                    let d = l.split("data: h").nth(1).unwrap_or("").trim();
                    if d.parse::<u64>().ok() != Some(h) {
                        return Err(format!("opreturn line with inconsistent marker: {}", l));
                    }
                    hs.push(h);
                }
            }
            Ok((hs, None))
        }
        _ => Err("observe: unknown callback".into()),
    }
}

impl Prop for C02 {
    fn id(&self) -> &'static str {
        "C02"
    }
    fn rule(&self) -> String {
        "grid: every chain length T+1 (T in 0..=10) x every accepted option shape (none, -s, -e, -s -e with e up to T+3 and e = 2^64-1) x 5 callbacks, one scenario per (T, shape, callback); plus sampled index segments at heights up to 2^40 (VarInt width boundaries, both sides of 2^32) and chains up to 2000 blocks. Marker blocks make every output row reveal its height. Non-trivial = the run was accepted by the CLI and processed at least one block; distinct by scenario document hash.".into()
    }
    fn exhaustive_note(&self) -> Option<String> {
        Some("the (T<=10) x option-shape x callback grid is enumerated completely; high heights and long chains are sampled".into())
    }
    fn items(&self, tier: Tier) -> u64 {
        // 11 grid items x 5 callbacks, then sampled items
        55 + if tier == Tier::Quick { 60 } else { 1200 }
    }
    fn explore(&self, item: u64, rng: &mut Rng, tier: Tier, h: &mut Harness) -> Result<(), String> {
        if item < 55 {
            let t = item / 5;
            let cb = CALLBACKS[(item % 5) as usize];
            let coin = COINS[(item % 8) as usize];
            let chain = marker_chain(0, t as usize + 1, rng);
            for (s, e) in shapes(0, t, true) {
                let mut scn = new_scenario("C02", "grid", coin);
                scn.chain = chain.clone();
                scn.layouts = vec![single_file_layout(scn.chain.len())];
                if t % 2 == 0 {
                    // the directory of a node that is running: pid file of a live process, lock file
                    for (name, body) in [("bitcoind.pid", &b"1\n"[..]), (".lock", &b""[..])] {
                        scn.layouts[0].extra_files.push(ExtraFile {
                            name: name.into(),
                            bytes: Bytes(body.to_vec()),
                            is_dir: false,
                            symlink_to: None,
                        });
                    }
                }
                scn.index = index_opts(rng);
                let mut r = RunSpec::new(cb);
                r.start = s;
                r.end = e;
                r.threads = 2;
                // heights spelled plainly, zero-padded (`printf %07d`) or with a leading plus sign
                r.height_style = ((s.unwrap_or(1) + e.unwrap_or(0).min(1000)) % 3) as u8;
                // marker chains are consistent: --verify goes with every range that starts above the first block
                // (block 0 of a marker chain is not the coin's genesis block)
                if s.map(|x| x >= 1).unwrap_or(false) && (t + s.unwrap_or(0)) % 2 == 1 {
                    r.verify = true;
                }
                if cb == "csvdump" || cb == "opreturn" {
                    let whole = RunSpec::new(cb);
                    scn.runs = vec![whole, r];
                } else {
                    scn.runs = vec![r];
                }
                h.check(&mut scn)?;
            }
            return Ok(());
        }
        // sampled: high heights / long chains
        let cb = *rng.pick(&CALLBACKS);
        let coin = *rng.pick(&COINS);
        let mut scn = new_scenario("C02", "sampled", coin);
        let long = rng.chance(1, 6);
        let n = if long { rng.usize(200, if tier == Tier::Quick { 600 } else { 2000 }) } else { rng.usize(1, 14) };
        let base = if long || rng.chance(1, 4) {
            0
        } else {
            // VarInt width boundaries of the height field: 1→2 bytes at 128, 2→3 at 16512, 3→4 at 2113664, 4→5 at 270549120
            let edges = [127u64, 128, 16511, 16512, 2113663, 2113664, 209_999, 1_000_000, 3_999_990, 16_777_215, 270_549_119, 270_549_120, 4_294_967_295, 4_294_967_296, 4_294_967_303, 34_630_287_487, 34_630_287_488, 1 << 40];
            let mut b = *rng.pick(&edges);
            if cb == "simplestats" && b > 13_000_000 {
                b = 3_999_990; // the subsidy shift is defined for 64 halvings only (C15 excludes higher heights)
            }
            b.saturating_sub(rng.below(n as u64 + 1))
        };
        scn.base_height = base;
        scn.chain = marker_chain(base, n, rng);
        scn.layouts = vec![random_layout(n, 4, true, rng)];
        // records the loader ignores (header-only at/beyond the tip, earlier-sorting stale blocks) must not move the range
        if n >= 2 && n <= 60 && rng.chance(1, 2) {
            super::c04::add_ignored_competitors(&mut scn, rng);
            h.stats.probe("index_with_ignored_competitors");
        }
        scn.index = index_opts(rng);
        // the blocks directory of a node that is running right now: pid file of a live process (pid 1), lock,
        // log — the range is decided by the index and the options alone
        if rng.coin() {
            for (name, body) in [("bitcoind.pid", &b"1\n"[..]), ("dogecoind.pid", &b"1\n"[..]), (".lock", &b""[..]), ("debug.log", &b"UpdateTip\n"[..])] {
                if rng.coin() {
                    scn.layouts[0].extra_files.push(ExtraFile {
                        name: name.into(),
                        bytes: Bytes(body.to_vec()),
                        is_dir: false,
                        symlink_to: None,
                    });
                }
            }
            h.stats.probe("live_node_files_in_blocks_dir");
        }
        let t = base + n as u64 - 1;
        let mut r = RunSpec::new(cb);
        r.threads = pick_threads(rng);
        r.plan = benign_plan(rng);
        let s = base + rng.below(n as u64);
        let e = match rng.below(5) {
            0 => None,
            1 => Some(t + rng.range(0, 3)),
            // far above the tip: the clamp must not do arithmetic on the option value
            4 => Some(*rng.pick(&[u64::MAX, u64::MAX - 1, 1u64 << 63, 1 << 32, u32::MAX as u64])),
            _ => Some(s + 1 + rng.below((t + 3 - s).max(1))),
        };
        r.start = if base == 0 && rng.chance(1, 4) { None } else { Some(s) };
        r.end = e;
        // long chains: half of the time a narrow window (index trimming keeps a small fraction)
        if long && rng.coin() {
            r.start = Some(s.max(1));
            r.end = Some(s.max(1) + rng.range(1, 9));
        }
        r.height_style = *rng.pick(&[0u8, 0, 1, 2]);
        // the CLI accepts only start < end
        if let Some(e) = r.end {
            let eff = r.start.unwrap_or(0);
            if e <= eff {
                r.end = Some(eff + 1);
            }
        }
        // a pruned / archived data directory: one block per file, and every file below the range is gone
        // (blocks outside the range never contribute — their absence must not matter)
        if !long && n >= 3 && rng.chance(1, 5) {
            let s0 = rng.range(base + 2, t.max(base + 2)).min(t);
            r.start = Some(s0);
            if r.end.map(|e| e <= s0).unwrap_or(false) {
                r.end = Some(s0 + 1);
            }
            scn.extras.clear();
            scn.layouts = vec![Layout {
                files: (0..n)
                    .map(|i| BlkFileDesc {
                        number: i as u64,
                        width: 5,
                        segs: vec![Seg::Active { i }],
                        symlink: false,
                    })
                    .collect(),
                xor_key: None,
                magic_mode: 0,
                xor_symlink: false,
                link_chain: false,
                side_xor: None,
                extra_files: vec![],
            }];
            r.disk_faults = (base..s0).map(|hh| DiskFault::RemoveFile { height: hh }).collect();
            h.stats.probe("pruned_below_range");
        }
        // marker chains are consistent: --verify may be combined with any range that starts above 0
        if r.start.map(|s| s >= base + 1).unwrap_or(false) && rng.chance(1, 3) {
            r.verify = true;
        }
        scn.runs = vec![r];
        h.check(&mut scn)?;
        Ok(())
    }

    fn nontrivial(&self, _scn: &Scenario, outs: &[RunOutcome]) -> bool {
        outs.iter().all(|o| o.exit.ok()) && outs.iter().any(|o| o.trace.iter().any(|e| e.op == "height"))
    }

    fn judge(&self, scn: &Scenario, m: &Model, outs: &[RunOutcome], st: &mut Stats) -> Vec<Violation> {
        let mut v = Vec::new();
        let ri = scn.runs.len() - 1;
        let r = &scn.runs[ri];
        let o = &outs[ri];
        let cb = r.callback.as_str();
        let (s, e) = expected_heights(m, r);
        let want: Vec<u64> = (s..=e).collect();
        if r.end.map(|x| x > m.tip()).unwrap_or(false) {
            st.probe("end_above_tip");
        }
        if r.end == Some(u64::MAX) {
            st.probe("end_u64_max");
        }
        if r.end == Some(m.tip()) {
            st.probe("end_at_tip");
        }
        if r.start == Some(m.tip()) {
            st.probe("start_at_tip");
        }
        if scn.base_height > 0 {
            st.probe("high_height_segment");
        }
        if m.tip() >= 1 << 32 {
            st.probe("height_beyond_32_bits");
        }
        if !o.exit.ok() {
            v.push(viol(format!("C02/{}/run-failed", cb), format!("accepted range {:?}..{:?} on tip {} exited {:?}: {}", r.start, r.end, m.tip(), o.exit, o.stderr_str())));
            return v;
        }
        let so = o.stdout_str();
        match processed_upto(&so) {
            Some(n) if n == e => {}
            x => v.push(viol(format!("C02/{}/summary-line", cb), format!("'Processed blocks up to height' reports {:?}, expected {} (range {:?}..{:?}, tip {})", x, e, r.start, r.end, m.tip()))),
        }
        if cb == "simplestats" {
            match parse_stats(&so) {
                None => v.push(viol("C02/simplestats/no-report", "no stats report on stdout")),
                Some(x) => {
                    let ex = m.stats(s, e);
                    let first = x.types.get("Pay2PublicKeyHash").map(|t| t.2);
                    if x.blocks != want.len() as u64 || x.txs != ex.txs || x.volume_units as u128 != ex.volume || first != Some(s) || x.biggest_value_height != e {
                        v.push(viol(
                            "C02/simplestats/heights",
                            format!(
                                "stats reveal blocks={} txs={} volume={} first={:?} last={} but range {}..{} has blocks={} txs={} volume={}",
                                x.blocks, x.txs, x.volume_units, first, x.biggest_value_height, s, e, want.len(), ex.txs, ex.volume
                            ),
                        ));
                    }
                }
            }
        } else {
            match observe(cb, o) {
                Err(msg) => v.push(viol(format!("C02/{}/output-shape", cb), msg)),
                Ok((hs, name)) => {
                    if hs != want {
                        v.push(viol(format!("C02/{}/heights", cb), format!("observed heights {:?}, expected {}..={} (options start={:?} end={:?}, tip {})", summarize(&hs), s, e, r.start, r.end, m.tip())));
                    }
                    if let Some((a, b)) = name {
                        if (a, b) != (s, e) {
                            v.push(viol(format!("C02/{}/filename", cb), format!("file names carry {}-{}, expected {}-{}", a, b, s, e)));
                        }
                    }
                }
            }
        }
        // slice relation against the program's own whole-chain run
        if ri == 1 && outs[0].exit.ok() && scn.base_height == 0 {
            let w = &outs[0];
            if cb == "csvdump" {
                for stem in ["blocks", "transactions", "tx_in", "tx_out"] {
                    let a = final_files(&w.dump, stem);
                    let b = final_files(&o.dump, stem);
                    if a.len() == 1 && b.len() == 1 {
                        let (wc, rc) = (a[0].3, b[0].3);
                        let pos = find_sub(wc, rc);
                        let ok = match pos {
                            Some(p) => p == 0 || wc[p - 1] == b'\n',
                            None => false,
                        };
                        if !ok {
                            v.push(viol("C02/csvdump/slice", format!("{} for range {}..{} is not a contiguous slice of the whole-chain file", stem, s, e)));
                        }
                    }
                }
            } else if cb == "opreturn" {
                let wl = w.plain_stdout_lines();
                let rl = o.plain_stdout_lines();
                let sl: Vec<String> = wl
                    .iter()
                    .filter(|l| {
                        l.strip_prefix("height: ").and_then(|r| r.split_whitespace().next()).and_then(|x| x.parse::<u64>().ok()).map(|hh| hh >= s && hh <= e).unwrap_or(false)
                    })
                    .cloned()
                    .collect();
                if sl != rl {
                    v.push(viol("C02/opreturn/slice", format!("opreturn lines for {}..{} differ from the slice of the whole-chain run", s, e)));
                }
            }
        }
        let _ = json!(null);
        v
    }
}

fn summarize(h: &[u64]) -> String {
    if h.len() <= 12 {
        format!("{:?}", h)
    } else {
        format!("[{} .. {}] ({} heights)", h[0], h[h.len() - 1], h.len())
    }
}

pub fn find_sub(hay: &[u8], needle: &[u8]) -> Option<usize> {
    if needle.is_empty() {
        return Some(0);
    }
    if needle.len() > hay.len() {
        return None;
    }
    // needle begins at a line start: scan line starts only
    let first_line_end = needle.iter().position(|b| *b == b'\n').unwrap_or(needle.len() - 1);
    let head = &needle[..=first_line_end.min(needle.len() - 1)];
    let mut i = 0;
    while i + needle.len() <= hay.len() {
        if hay[i..].starts_with(head) && hay[i..].starts_with(needle) {
            return Some(i);
        }
        match hay[i..].iter().position(|b| *b == b'\n') {
            Some(p) => i += p + 1,
            None => break,
        }
    }
    None
}
