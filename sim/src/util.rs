//! PRNG, hex, hashing, Base58Check, Bech32/Bech32m — all written here (only
//! SHA-256 / RIPEMD-160 come from `bitcoin_hashes`, which is in the trusted base).
use bitcoin_hashes::{hash160, sha256, sha256d, Hash};

pub fn sha256d_(data: &[u8]) -> [u8; 32] {
    sha256d::Hash::hash(data).to_byte_array()
}
pub fn sha256_(data: &[u8]) -> [u8; 32] {
    sha256::Hash::hash(data).to_byte_array()
}
pub fn hash160_(data: &[u8]) -> [u8; 20] {
    hash160::Hash::hash(data).to_byte_array()
}

pub fn hex(b: &[u8]) -> String {
    const H: &[u8; 16] = b"0123456789abcdef";
    let mut s = String::with_capacity(b.len() * 2);
    for x in b {
        s.push(H[(x >> 4) as usize] as char);
        s.push(H[(x & 15) as usize] as char);
    }
    s
}
/// hash as displayed by Bitcoin software: byte-reversed hex
pub fn hex_rev(b: &[u8]) -> String {
    let mut v = b.to_vec();
    v.reverse();
    hex(&v)
}
pub fn unhex(s: &str) -> Result<Vec<u8>, String> {
    if s.len() % 2 != 0 {
        return Err("odd hex".into());
    }
    let b = s.as_bytes();
    let v = |c: u8| -> Result<u8, String> {
        match c {
            b'0'..=b'9' => Ok(c - b'0'),
            b'a'..=b'f' => Ok(c - b'a' + 10),
            b'A'..=b'F' => Ok(c - b'A' + 10),
            _ => Err("bad hex".into()),
        }
    };
    let mut out = Vec::with_capacity(s.len() / 2);
    for i in (0..b.len()).step_by(2) {
        out.push(v(b[i])? << 4 | v(b[i + 1])?);
    }
    Ok(out)
}

// ---------------------------------------------------------------- PRNG
#[derive(Clone)]
pub struct Rng {
    s: [u64; 4],
}
fn splitmix(x: &mut u64) -> u64 {
    *x = x.wrapping_add(0x9e3779b97f4a7c15);
    let mut z = *x;
    z = (z ^ (z >> 30)).wrapping_mul(0xbf58476d1ce4e5b9);
    z = (z ^ (z >> 27)).wrapping_mul(0x94d049bb133111eb);
    z ^ (z >> 31)
}
impl Rng {
    pub fn new(seed: u64) -> Rng {
        let mut x = seed;
        Rng {
            s: [splitmix(&mut x), splitmix(&mut x), splitmix(&mut x), splitmix(&mut x)],
        }
    }
    /// independent stream for (seed, label, index)
    pub fn stream(seed: u64, label: &str, idx: u64) -> Rng {
        let mut buf = Vec::new();
        buf.extend_from_slice(&seed.to_le_bytes());
        buf.extend_from_slice(label.as_bytes());
        buf.extend_from_slice(&idx.to_le_bytes());
        let h = sha256_(&buf);
        let mut s = [0u64; 4];
        for i in 0..4 {
            s[i] = u64::from_le_bytes(h[i * 8..i * 8 + 8].try_into().unwrap());
        }
        if s == [0; 4] {
            s[0] = 1;
        }
        Rng { s }
    }
    pub fn next(&mut self) -> u64 {
        let r = self.s[1].wrapping_mul(5).rotate_left(7).wrapping_mul(9);
        let t = self.s[1] << 17;
        self.s[2] ^= self.s[0];
        self.s[3] ^= self.s[1];
        self.s[1] ^= self.s[2];
        self.s[0] ^= self.s[3];
        self.s[2] ^= t;
        self.s[3] = self.s[3].rotate_left(45);
        r
    }
    /// uniform in 0..n (n>0)
    pub fn below(&mut self, n: u64) -> u64 {
        if n <= 1 {
            return 0;
        }
        // rejection-free enough for test generation
        ((self.next() as u128 * n as u128) >> 64) as u64
    }
    pub fn range(&mut self, lo: u64, hi_incl: u64) -> u64 {
        lo + self.below(hi_incl - lo + 1)
    }
    pub fn usize(&mut self, lo: usize, hi_incl: usize) -> usize {
        self.range(lo as u64, hi_incl as u64) as usize
    }
    pub fn chance(&mut self, num: u64, den: u64) -> bool {
        self.below(den) < num
    }
    pub fn coin(&mut self) -> bool {
        self.next() & 1 == 1
    }
    pub fn pick<'a, T>(&mut self, v: &'a [T]) -> &'a T {
        &v[self.below(v.len() as u64) as usize]
    }
    pub fn bytes(&mut self, n: usize) -> Vec<u8> {
        let mut v = Vec::with_capacity(n + 8);
        while v.len() < n {
            v.extend_from_slice(&self.next().to_le_bytes());
        }
        v.truncate(n);
        v
    }
    pub fn bytes_range(&mut self, lo: usize, hi: usize) -> Vec<u8> {
        let n = self.usize(lo, hi);
        self.bytes(n)
    }
    pub fn shuffle<T>(&mut self, v: &mut [T]) {
        for i in (1..v.len()).rev() {
            let j = self.below(i as u64 + 1) as usize;
            v.swap(i, j);
        }
    }
    /// log-uniform integer in [lo, hi]
    pub fn log_range(&mut self, lo: u64, hi: u64) -> u64 {
        let lo_f = (lo.max(1)) as f64;
        let hi_f = hi as f64;
        let u = (self.next() >> 11) as f64 / (1u64 << 53) as f64;
        let v = (lo_f.ln() + u * (hi_f.ln() - lo_f.ln())).exp();
        (v as u64).clamp(lo, hi)
    }
    /// a u32 biased to extremes
    pub fn u32_edge(&mut self) -> u32 {
        match self.below(8) {
            0 => 0,
            1 => 1,
            2 => 0x8000_0000,
            3 => 0xffff_ffff,
            4 => 0x7fff_ffff,
            _ => self.next() as u32,
        }
    }
    pub fn u64_edge(&mut self) -> u64 {
        match self.below(8) {
            0 => 0,
            1 => 1,
            2 => 1 << 63,
            3 => u64::MAX,
            4 => 1 << 32,
            _ => self.next(),
        }
    }
}

// ---------------------------------------------------------------- Base58Check
const B58: &[u8; 58] = b"123456789ABCDEFGHJKLMNPQRSTUVWXYZabcdefghijkmnopqrstuvwxyz";

pub fn base58(data: &[u8]) -> String {
    let zeros = data.iter().take_while(|b| **b == 0).count();
    let mut digits: Vec<u8> = Vec::new(); // base58 digits, little endian
    for &byte in data {
        let mut carry = byte as u32;
        for d in digits.iter_mut() {
            carry += (*d as u32) << 8;
            *d = (carry % 58) as u8;
            carry /= 58;
        }
        while carry > 0 {
            digits.push((carry % 58) as u8);
            carry /= 58;
        }
    }
    let mut s = String::new();
    for _ in 0..zeros {
        s.push('1');
    }
    for d in digits.iter().rev() {
        s.push(B58[*d as usize] as char);
    }
    s
}

pub fn base58_decode(s: &str) -> Option<Vec<u8>> {
    let zeros = s.bytes().take_while(|b| *b == b'1').count();
    let mut bytes: Vec<u8> = Vec::new(); // little endian
    for c in s.bytes() {
        let v = B58.iter().position(|x| *x == c)? as u32;
        let mut carry = v;
        for b in bytes.iter_mut() {
            carry += (*b as u32) * 58;
            *b = (carry & 0xff) as u8;
            carry >>= 8;
        }
        while carry > 0 {
            bytes.push((carry & 0xff) as u8);
            carry >>= 8;
        }
    }
    // strip leading zero bytes produced by value (little endian tail zeros)
    while bytes.last() == Some(&0) {
        bytes.pop();
    }
    let mut out = vec![0u8; zeros];
    out.extend(bytes.iter().rev());
    Some(out)
}

pub fn base58check(version: u8, payload: &[u8]) -> String {
    let mut v = Vec::with_capacity(payload.len() + 5);
    v.push(version);
    v.extend_from_slice(payload);
    let c = sha256d_(&v);
    v.extend_from_slice(&c[..4]);
    base58(&v)
}

/// returns (version, payload) if checksum valid
pub fn base58check_decode(s: &str) -> Option<(u8, Vec<u8>)> {
    let v = base58_decode(s)?;
    if v.len() < 5 {
        return None;
    }
    let (body, chk) = v.split_at(v.len() - 4);
    if &sha256d_(body)[..4] != chk {
        return None;
    }
    Some((body[0], body[1..].to_vec()))
}

// ---------------------------------------------------------------- Bech32 / Bech32m
const BECH: &[u8; 32] = b"qpzry9x8gf2tvdw0s3jn54khce6mua7l";

fn polymod(values: &[u8]) -> u32 {
    const GEN: [u32; 5] = [0x3b6a57b2, 0x26508e6d, 0x1ea119fa, 0x3d4233dd, 0x2a1462b3];
    let mut chk: u32 = 1;
    for v in values {
        let b = chk >> 25;
        chk = ((chk & 0x1ffffff) << 5) ^ (*v as u32);
        for i in 0..5 {
            if (b >> i) & 1 == 1 {
                chk ^= GEN[i];
            }
        }
    }
    chk
}
fn hrp_expand(hrp: &str) -> Vec<u8> {
    let mut v: Vec<u8> = hrp.bytes().map(|c| c >> 5).collect();
    v.push(0);
    v.extend(hrp.bytes().map(|c| c & 31));
    v
}
fn convert_bits(data: &[u8], from: u32, to: u32, pad: bool) -> Option<Vec<u8>> {
    let mut acc: u32 = 0;
    let mut bits: u32 = 0;
    let mut out = Vec::new();
    let maxv = (1u32 << to) - 1;
    for &b in data {
        if (b as u32) >> from != 0 {
            return None;
        }
        acc = (acc << from) | b as u32;
        bits += from;
        while bits >= to {
            bits -= to;
            out.push(((acc >> bits) & maxv) as u8);
        }
    }
    if pad {
        if bits > 0 {
            out.push(((acc << (to - bits)) & maxv) as u8);
        }
    } else if bits >= from || ((acc << (to - bits)) & maxv) != 0 {
        return None;
    }
    Some(out)
}

/// segwit address: version 0 → Bech32, 1..16 → Bech32m
pub fn segwit_addr(hrp: &str, version: u8, program: &[u8]) -> String {
    let mut data = vec![version];
    data.extend(convert_bits(program, 8, 5, true).unwrap());
    let konst: u32 = if version == 0 { 1 } else { 0x2bc830a3 };
    let mut values = hrp_expand(hrp);
    values.extend_from_slice(&data);
    values.extend_from_slice(&[0; 6]);
    let pm = polymod(&values) ^ konst;
    let mut s = String::from(hrp);
    s.push('1');
    for d in &data {
        s.push(BECH[*d as usize] as char);
    }
    for i in 0..6 {
        s.push(BECH[((pm >> (5 * (5 - i))) & 31) as usize] as char);
    }
    s
}

/// decode a segwit address → (hrp, version, program); checks the checksum kind
pub fn segwit_decode(addr: &str) -> Option<(String, u8, Vec<u8>)> {
    let pos = addr.rfind('1')?;
    let (hrp, rest) = addr.split_at(pos);
    let rest = &rest[1..];
    if rest.len() < 7 {
        return None;
    }
    let mut data = Vec::new();
    for c in rest.bytes() {
        data.push(BECH.iter().position(|x| *x == c)? as u8);
    }
    let mut values = hrp_expand(hrp);
    values.extend_from_slice(&data);
    let pm = polymod(&values);
    let version = data[0];
    let want = if version == 0 { 1 } else { 0x2bc830a3 };
    if pm != want {
        return None;
    }
    let prog = convert_bits(&data[1..data.len() - 6], 5, 8, false)?;
    Some((hrp.to_string(), version, prog))
}

// ---------------------------------------------------------------- encodings
pub fn compact_size(n: u64) -> Vec<u8> {
    if n < 0xfd {
        vec![n as u8]
    } else if n <= 0xffff {
        let mut v = vec![0xfd];
        v.extend_from_slice(&(n as u16).to_le_bytes());
        v
    } else if n <= 0xffff_ffff {
        let mut v = vec![0xfe];
        v.extend_from_slice(&(n as u32).to_le_bytes());
        v
    } else {
        let mut v = vec![0xff];
        v.extend_from_slice(&n.to_le_bytes());
        v
    }
}

/// CompactSize with a minimum encoded width of `w` bytes (1, 3, 5 or 9)
pub fn compact_size_w(n: u64, w: u8) -> Vec<u8> {
    let c = compact_size(n);
    if (c.len() as u8) >= w {
        return c;
    }
    match w {
        3 if n <= 0xffff => {
            let mut v = vec![0xfd];
            v.extend_from_slice(&(n as u16).to_le_bytes());
            v
        }
        5 if n <= 0xffff_ffff => {
            let mut v = vec![0xfe];
            v.extend_from_slice(&(n as u32).to_le_bytes());
            v
        }
        9 => {
            let mut v = vec![0xff];
            v.extend_from_slice(&n.to_le_bytes());
            v
        }
        _ => c,
    }
}

/// Bitcoin Core's VarInt (MSB base-128 with the "+1" carry), as used in the block index
pub fn core_varint(mut n: u64) -> Vec<u8> {
    let mut tmp = Vec::new();
    let mut first = true;
    loop {
        tmp.push((n & 0x7f) as u8 | if first { 0 } else { 0x80 });
        first = false;
        if n <= 0x7f {
            break;
        }
        n = (n >> 7) - 1;
    }
    tmp.reverse();
    tmp
}

#[cfg(test)]
mod tests {
    use super::*;
    #[test]
    fn varint() {
        assert_eq!(core_varint(0), vec![0]);
        assert_eq!(core_varint(127), vec![0x7f]);
        assert_eq!(core_varint(128), vec![0x80, 0x00]);
        assert_eq!(core_varint(255), vec![0x80, 0x7f]);
        assert_eq!(core_varint(256), vec![0x81, 0x00]);
        assert_eq!(core_varint(16383), vec![0xfe, 0x7f]);
        assert_eq!(core_varint(16384), vec![0xff, 0x00]);
        assert_eq!(core_varint(16511), vec![0xff, 0x7f]);
        assert_eq!(core_varint(65535), vec![0x82, 0xfe, 0x7f]);
    }
}
